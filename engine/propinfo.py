# per-property description used in the evidence files (what is encoded, bounds, what is outside)
INFO = {
 "C07": dict(
   level="model_checking",
   functions=["<Num as PartialOrd>::partial_cmp", "BigNum::mul", "BigNum::mult_core", "BigNum::from_vec", "BigNum::shrink_to_fit",
              "<BigNum as PartialOrd>::partial_cmp", "<BigNum as PartialEq>::eq", "BigNum::less_core", "area::calc"],
   bounds="numerators and denominators: one full 32-bit limb each, both signs; NaN in both encodings; area trees with <= 3 operators",
   outside="operands above one limb (the multi-limb kernels are decided under C05)",
   explanation="Kani/CBMC bounded model checking of the real comparison code for all operand values inside the bounds; oracle = two u64 products",
   assumptions=["operands are canonical only in the sense 'numerically equal => structurally equal' and 'denominator > 0'"]),
 "C05": dict(
   level="model_checking",
   functions=["BigNum::add_core", "BigNum::sub_core", "BigNum::mult_core", "BigNum::div_core", "BigNum::less_core", "BigNum::shrink_to_fit",
              "BigNum::add", "BigNum::sub", "BigNum::mul", "BigNum::div", "BigNum::rem", "BigNum::gcd", "BigNum::neg", "BigNum::minus",
              "BigNum::new", "BigNum::from_vec", "<BigNum as PartialEq>::eq", "<BigNum as PartialOrd>::partial_cmp",
              "ops::{Add,Sub,Mul,Div,Rem}Assign<&BigNum> for BigNum"],
   bounds="limb counts concrete per harness (1..3 limbs each side for add/sub/compare, up to 2x2 (thorough 1x3) for multiplication, 1x1 for division with a constant divisor from a boundary set), every limb value and sign symbolic; gcd operands 8 bit (quick) / 16 bit (thorough); BigNum::new over all 2^64 isize values",
   outside="operands above 3 limbs; division with a symbolic divisor or a multi-limb dividend (the quotient-search loop is decided for constant divisors only); chains of real operations (each level is decided against exact one-limb models of the level below); the argument that carries are uniform in the limb index is not part of the solver's claim",
   explanation="Kani/CBMC bounded model checking of the real bignum kernels and public operations; oracles are u128/i128 arithmetic, sums of 32x32 partial products, and the division lemma q*b <= a < q*b+b",
   assumptions=["operands are normalised (no leading zero limb, zero non-negative), which every public constructor establishes",
                "gcd(a,b) = gcd(b, a mod b) (mathematical fact used by the gcd-chain oracle)"]),
 "C06": dict(
   level="model_checking",
   functions=["Num::add", "Num::mul", "Num::neg", "Num::minus", "Num::flip", "Num::floor", "Num::is_pos", "Num::is_nan", "Num::optimize",
              "Num::from_big_num", "Num::nan", "<Num as PartialEq>::eq (derived)", "ops::{AddAssign,MulAssign,Neg} for Num"],
   bounds="exact variants (gcd = Euclid model incl. sign): numerators -15..15, denominators 1..15 (add/mul), |n|,|d| < 128 (optimize); contract variants (gcd = any common divisor with exact cofactors, any sign): 8-bit magnitudes quick / 15-bit thorough, 16-bit for optimize; flip/neg/is_pos/floor: full one-limb (32-bit) values; NaN in both encodings",
   outside="multi-limb numerators/denominators (the BigNum operations underneath are decided separately under C05 and replaced here by exact one-limb models); Num::new(0,0)/from_string(\"0/0\") (0/0 is not produced by any operation); Display text (C09)",
   explanation="Kani/CBMC bounded model checking of the real Num code over one-limb models of BigNum::{add,mul,div,gcd}; result compared with the canonical form of the exact rational value (value, lowest terms via the gcd, positive denominator, non-negative zero)",
   assumptions=["BigNum::{add,mul,div,gcd} behave as their one-limb models (decided under C05; validity of the gcd sign model checked by gcd_model_valid8)",
                "inputs have positive denominators"]),
}
