#!/usr/bin/env python3
"""Driver: /repo working tree -> scratch copy + harness modules -> Kani codegen ->
goto-cc/goto-instrument/cbmc per harness (parallel, capped) -> verdicts ->
native replay of counterexamples -> evidence JSON + VIOLATION / KNOWN-FINDING lines.

usage: check.py <PROP> [--tier quick|thorough] [--only name-substr] [--keep] [--jobs N]
       check.py <PROP> --replay <file>
"""
import sys, os, re, json, time, shutil, subprocess, hashlib, glob, signal, threading
from concurrent.futures import ThreadPoolExecutor

HERE = os.path.dirname(os.path.abspath(__file__))
VERIF = os.path.dirname(HERE)
HARN = os.path.join(VERIF, "harness")
REPO = os.environ.get("VERIF_REPO", "/repo")
SCRATCH_ROOT = os.environ.get("VERIF_SCRATCH", "/root/.verif-scratch")
CACHE = os.path.join(VERIF, ".cache")
KANI_LIB_C = "/root/.kani/kani-0.68.0/library/kani/kani_lib.c"
PARTIAL = False
SELFTEST = [None]

# harness file -> (repo source file it is attached to, module name)
ATTACH = {
    "vlib.rs": ("src/lib.rs", "vlib"),
    "spec.rs": ("src/lib.rs", "vspec"),
    "h_bn.rs": ("src/number/big_number.rs", "verif_bn"),
    "h_num.rs": ("src/number/num.rs", "verif_num"),
    "h_ex.rs": ("src/core/execute.rs", "verif_ex"),
    "h_opt.rs": ("src/core/optimize.rs", "verif_opt"),
    "h_pa.rs": ("src/core/parse.rs", "verif_pa"),
    "h_co.rs": ("src/core/compile.rs", "verif_co"),
    "h_io.rs": ("src/util/io.rs", "verif_io"),
    "h_area.rs": ("src/core/area.rs", "verif_area"),
    "h_st.rs": ("src/core/state.rs", "verif_st"),
}
MODPATH = {
    "h_bn.rs": "number::big_number::verif_bn",
    "h_num.rs": "number::num::verif_num",
    "h_ex.rs": "core::execute::verif_ex",
    "h_opt.rs": "core::optimize::verif_opt",
    "h_pa.rs": "core::parse::verif_pa",
    "h_co.rs": "core::compile::verif_co",
    "h_io.rs": "util::io::verif_io",
    "h_area.rs": "core::area::verif_area",
    "h_st.rs": "core::state::verif_st",
}

CBMC_FLAGS = ["--no-malloc-may-fail", "--no-undefined-shift-check", "--no-signed-overflow-check",
              "--nan-check", "--no-self-loops-to-assumptions", "--no-pointer-primitive-check",
              "--object-bits", "16", "--unwinding-assertions", "--sat-solver", "cadical",
              "--slice-formula", "--verbosity", "9"]


def log(*a):
    print(*a, file=sys.stderr, flush=True)


# ---------------------------------------------------------------------------
# harness registry: `// @h key=val ...` lines directly above `pub fn name()`
# ---------------------------------------------------------------------------
def scan_harnesses():
    hs = []
    for f in sorted(os.listdir(HARN)):
        if f not in MODPATH:
            continue
        text = open(os.path.join(HARN, f), encoding="utf-8").read()
        lines = text.split("\n")
        # stubs declared inside macro_rules! bodies (harnesses instantiated through a macro)
        macro_stubs = {}
        for mm in re.finditer(r"macro_rules!\s*(\w+)\s*\{(.*?)\n\}\n", text, re.S):
            macro_stubs[mm.group(1)] = [a.strip() + " -> " + b.strip() for a, b in
                                        re.findall(r"kani::stub\(([^,]+),\s*([^)]+)\)", mm.group(2))]
        i = 0
        while i < len(lines):
            m = re.match(r"\s*// @h (.*)$", lines[i])
            if m:
                kv = {}
                for tok in m.group(1).split():
                    if "=" in tok:
                        k, v = tok.split("=", 1)
                        kv[k] = v
                j = i + 1
                stubs = []
                name = None
                while j < len(lines):
                    s = re.search(r"kani::stub\(([^,]+),\s*([^)]+)\)", lines[j])
                    if s:
                        stubs.append(s.group(1).strip() + " -> " + s.group(2).strip())
                    n = re.match(r"\s*pub fn (\w+)\s*\(", lines[j])
                    if n:
                        name = n.group(1)
                        break
                    # macro-instantiated harness: `mac!(name, ...)`
                    n = re.match(r"\s*(\w+)!\(\s*(\w+)\s*[,)]", lines[j])
                    if n:
                        name = n.group(2)
                        stubs = stubs + macro_stubs.get(n.group(1), [])
                        break
                    j += 1
                if name:
                    kv["name"] = name
                    kv["file"] = f
                    kv["full"] = MODPATH[f] + "::" + name
                    kv["stubs"] = stubs
                    kv.setdefault("tier", "quick")
                    kv.setdefault("unwind", "4")
                    kv.setdefault("timeout", "120")
                    kv.setdefault("mem", "8")
                    kv.setdefault("kind", "must")      # must | stretch | twin
                    hs.append(kv)
                i = j
            i += 1
    return hs


# ---------------------------------------------------------------------------
def run(cmd, **kw):
    return subprocess.run(cmd, stdout=subprocess.PIPE, stderr=subprocess.STDOUT, text=True, **kw)


def prepare_scratch(tag, files):
    d = os.path.join(SCRATCH_ROOT, tag)
    if os.path.exists(d):
        shutil.rmtree(d)
    os.makedirs(d)
    repo = os.path.join(d, "repo")
    r = run(["rsync", "-a", "--exclude", "target", "--exclude", ".git", REPO + "/", repo + "/"])
    if r.returncode != 0:
        raise SystemExit("rsync failed: " + r.stdout)
    # (the str::find model in h_pa.rs names the unstable Pattern trait; Kani builds with a nightly)
    lib = os.path.join(repo, "src", "lib.rs")
    txt = open(lib, encoding="utf-8").read()
    open(lib, "w", encoding="utf-8").write("#![cfg_attr(kani, feature(pattern))]\n" + txt)
    for f in files:
        src, mod = ATTACH[f]
        with open(os.path.join(repo, src), "a", encoding="utf-8") as fh:
            fh.write('\n#[cfg(any(kani, verif_replay))]\n#[path = "%s"]\npub mod %s;\n'
                     % (os.path.join(HARN, f), mod))
    return d, repo


def src_digest():
    h = hashlib.sha256()
    for root, _, fs in os.walk(os.path.join(REPO, "src")):
        for f in sorted(fs):
            p = os.path.join(root, f)
            h.update(p.encode())
            h.update(open(p, "rb").read())
    return h.hexdigest()[:16]


def kani_codegen(repo, prop, dest, names=None):
    """one shared Kani target dir (dependency artefacts are reused), serialised by a file lock;
    the per-harness GOTO symbol tables are copied into the run's own scratch directory"""
    import fcntl
    tdir = os.path.join(CACHE, "kt")
    os.makedirs(tdir, exist_ok=True)
    env = dict(os.environ, CARGO_NET_OFFLINE="true")
    t0 = time.time()
    with open(os.path.join(CACHE, "kt.lock"), "w") as lk:
        fcntl.flock(lk, fcntl.LOCK_EX)
        # stale symtabs from an earlier run must not be picked up
        for old in glob.glob(os.path.join(tdir, "kani", "*", "debug", "build", "hyeong", "*")):
            shutil.rmtree(old, ignore_errors=True)
        cmd = ["cargo", "kani", "--only-codegen", "-Z", "stubbing", "--no-assertion-reach-checks",
               "--lib", "--target-dir", tdir]
        if names:
            # only the selected harnesses are lowered to GOTO (one symbol table per harness)
            cmd.append("--exact")
            for n in names:
                cmd += ["--harness", n]
        r = run(cmd, cwd=repo, env=env)
        if r.returncode != 0:
            log(r.stdout[-6000:])
            raise SystemExit("kani codegen failed (exit %d)" % r.returncode)
        metas = glob.glob(os.path.join(tdir, "kani", "*", "debug", "build", "hyeong", "*", "out",
                                       "*.kani-metadata.json"))
        if not metas:
            log(r.stdout[-3000:])
            raise SystemExit("kani metadata not found")
        mfile = max(metas, key=os.path.getmtime)
        odir = os.path.dirname(mfile)
        shutil.copytree(odir, dest)
        meta = json.load(open(mfile))
    table = {}
    for h in meta["proof_harnesses"]:
        h["goto_file"] = os.path.join(dest, os.path.basename(h["goto_file"]))
        table[h["pretty_name"]] = h
    return table, time.time() - t0


def limited(mem_gb, timeout_s):
    def f():
        import resource
        b = int(mem_gb * (1 << 30))
        resource.setrlimit(resource.RLIMIT_AS, (b, b))
        os.setsid()
    return f


CUT_FMT = re.compile(r" as std::fmt::Debug>::fmt|impl std::fmt::Debug for|std::fmt::LowerHex|std::fmt::UpperHex|"
                     r"std::fmt::DebugStruct|std::fmt::DebugTuple|std::fmt::DebugList|std::fmt::DebugMap|std::fmt::DebugSet|builders::PadAdapter|"
                     r"EscapeDebug|EscapeIterInner|EscapeDefault|EscapeUnicode")


def cut_functions(o, regex):
    """Replace the bodies of the formatting back ends no examined path can legitimately reach
    (Debug/hex/pretty-printer machinery) by `assert(false); assume(false)`: CBMC resolves the
    `fmt` function pointer of core::fmt::rt::Argument to every function of that signature, and
    symbolically executing all of them dominates the run.  A real call to one of them would
    fail the inserted assertion, i.e. the cut is checked, not assumed."""
    r = run(["goto-instrument", "--list-goto-functions", o])
    ids = []
    for line in r.stdout.split("\n"):
        m = re.match(r"^(.*) /\* (\S+) \*/\s*$", line)
        if m and regex.search(m.group(1)):
            ids.append(m.group(2))
    if not ids:
        return None
    cmd = ["goto-instrument"]
    for i in ids:
        cmd += ["--remove-function-body", i]
    r = run(cmd + [o, o])
    if r.returncode != 0:
        return "remove-function-body failed: " + r.stdout[-1500:]
    return None


def link_harness(meta, outdir, h=None):
    name = meta["pretty_name"].split("::")[-1]
    o = os.path.join(outdir, name + ".goto")
    fn = meta["mangled_name"]
    for s0 in (["goto-cc", meta["goto_file"], KANI_LIB_C, "-o", o], ["goto-cc", o, "--function", fn, "-o", o]):
        r = run(s0)
        if r.returncode != 0:
            return None, "link step failed: %s\n%s" % (" ".join(s0[:3]), r.stdout[-2000:])
    if h is not None and h.get("cutfmt"):
        rx = CUT_FMT.pattern
        lvl = h["cutfmt"]
        if lvl in ("char", "none"):
            # the only formatting this harness can legitimately reach is `{}` of a char / str
            rx += r"|Num as std::fmt::Display|BigNum as std::fmt::Display|String as std::fmt::Display|Arguments<'_> as std::fmt::Display|fmt::num::imp|std::fmt::FromFn|core::str::count::|Formatter::<'_>::padding|PostPadding"
        if lvl == "num":
            rx += r"|Arguments<'_> as std::fmt::Display|fmt::num::imp|std::fmt::FromFn|core::str::count::|Formatter::<'_>::padding|PostPadding"
        e = cut_functions(o, re.compile(rx))
        if e:
            return None, e
    steps = [
        ["goto-instrument", "--add-library", "--no-malloc-may-fail", o, o],
        ["goto-instrument", "--generate-function-body-options", "assert-false-assume-false",
         "--generate-function-body", ".*", "--drop-unused-functions", o, o],
        ["goto-instrument", "--ensure-one-backedge-per-target", o, o],
    ]
    for s in steps:
        r = run(s)
        if r.returncode != 0:
            return None, "link step failed: %s\n%s" % (" ".join(s[:3]), r.stdout[-2000:])
    return o, None


def parse_cbmc_json(text):
    """returns (status, results[list], messages)"""
    try:
        data = json.loads(text)
    except Exception:
        # truncated output (killed): try to salvage nothing
        return None, [], []
    results, status, msgs = [], None, []
    for item in data:
        if "result" in item:
            results = item["result"]
        if "cProverStatus" in item:
            status = item["cProverStatus"]
        if "messageText" in item:
            msgs.append(item["messageText"])
    return status, results, msgs


def classify(results):
    """split CBMC property results into real failures / unwinding failures / cover info"""
    fails, unwind, cover_reached, cover_seen = [], [], False, False
    nprops = 0
    for r in results:
        prop = r.get("property", "")
        desc = r.get("description", "")
        st = r.get("status")
        if "verif_reached_end" in desc:
            cover_seen = True
            if st in ("FAILURE", "SATISFIED"):
                cover_reached = True
            continue
        if ".cover." in prop or desc.startswith("cover "):
            continue
        nprops += 1
        if st == "SUCCESS":
            continue
        if ".unwind." in prop or "unwinding assertion" in desc:
            unwind.append(r)
        elif ".recursion" in prop or "recursion unwinding" in desc:
            unwind.append(r)
        else:
            fails.append(r)
    return fails, unwind, cover_seen, cover_reached, nprops


_rec_cache = {}


def recursion_unwindset(goto, bound):
    """per-function recursion bound for the recursive clone / drop glue of the Area tree
    (a global --unwind N costs 2^N paths per clone or drop site)"""
    if goto not in _rec_cache:
        r = run(["goto-instrument", "--list-goto-functions", goto])
        ids = []
        for line in r.stdout.split("\n"):
            m = re.match(r"^(.*) /\* (\S+) \*/\s*$", line)
            if not m:
                continue
            pretty, mangled = m.group(1), m.group(2)
            if "area::Area" in pretty and re.search(r"Clone>::clone|drop_glue|drop_in_place|clone_one|clone_to_uninit", pretty):
                ids.append(mangled)
            # drop glue of io::Error (Box<dyn Error> inside): recursive through a vtable call; the writers
            # used by the harnesses never fail, which the recursion-unwinding assertion then confirms
            elif re.search(r"io::error|io::Error", pretty) and re.search(r"drop_glue|Drop>::drop|drop_in_place", pretty):
                ids.append(mangled + ":1")
        _rec_cache[goto] = ids
    return ",".join(i if ":" in i else "%s:%s" % (i, bound) for i in _rec_cache[goto])


_fn_cache = {}


def list_functions(goto):
    if goto not in _fn_cache:
        r = run(["goto-instrument", "--list-goto-functions", goto])
        fs = []
        for line in r.stdout.split("\n"):
            m = re.match(r"^(.*) /\* (\S+) \*/\s*$", line)
            if m:
                fs.append((m.group(1), m.group(2)))
        _fn_cache[goto] = fs
    return _fn_cache[goto]


def resolve_unwindset(goto, spec):
    """`uw=fname.N:B;other.N:B` with fname the last path segment of the function's pretty name"""
    out = []
    for tok in spec.split(";"):
        if not tok:
            continue
        m = re.match(r"^(.+)\.(\d+):(\d+)$", tok)
        if not m:
            raise SystemExit("bad uw token " + tok)
        name, n, b = m.groups()
        for pretty, mangled in list_functions(goto):
            base = re.sub(r"::<.*$", "", pretty)
            if base == name or base.endswith("::" + name):
                out.append("%s.%s:%s" % (mangled, n, b))
    return ",".join(out)


def run_cbmc(goto, h, extra=None, timeout=None):
    cmd = ["cbmc"] + CBMC_FLAGS + ["--unwind", str(h["unwind"])]
    us = h.get("unwindset", "")
    if h.get("uw"):
        us = (us + "," + resolve_unwindset(goto, h["uw"])).strip(",")
    if h.get("rec"):
        rs = recursion_unwindset(goto, h["rec"])
        us = (us + "," + rs).strip(",")
    if us:
        cmd += ["--unwindset", us]
    cmd += ["--json-ui"] + (extra or []) + [goto]
    if extra and "--trace" in extra:
        # the counterexample run keeps every assignment: with formula slicing, nondeterministic
        # inputs that do not influence the failing property vanish from the trace and the
        # remaining values would be replayed out of order
        if "--verif-keep-slice" in cmd:
            cmd = [c for c in cmd if c != "--verif-keep-slice"]
        else:
            cmd = [c for c in cmd if c != "--slice-formula"]
    to = float(timeout or h["timeout"])
    t0 = time.time()
    try:
        p = subprocess.Popen(cmd, stdout=subprocess.PIPE, stderr=subprocess.DEVNULL,
                             preexec_fn=limited(float(h["mem"]), to))
        try:
            out, _ = p.communicate(timeout=to)
            rc = p.returncode
        except subprocess.TimeoutExpired:
            try:
                os.killpg(p.pid, signal.SIGKILL)
            except Exception:
                p.kill()
            p.communicate()
            return "TIMEOUT", None, time.time() - t0, ""
    except Exception as e:
        return "ERROR", None, time.time() - t0, str(e)
    return rc, out.decode("utf-8", "replace"), time.time() - t0, ""


def program_size(msgs):
    steps = vccs = 0
    for m in msgs:
        a = re.search(r"size of program expression: (\d+) steps", m)
        if a:
            steps += int(a.group(1))
        a = re.search(r"Generated (\d+) VCC\(s\), (\d+) remaining", m)
        if a:
            vccs += int(a.group(1))
    return steps, vccs


def solver_times(msgs):
    sym = sol = 0.0
    for m in msgs:
        a = re.search(r"Runtime Symex: ([0-9.e+-]+)s", m)
        if a:
            sym += float(a.group(1))
        a = re.search(r"Runtime Solver: ([0-9.e+-]+)s", m)
        if a:
            sol += float(a.group(1))
    return sym, sol


def extract_values(trace):
    vals = []
    for s in trace:
        if s.get("stepType") != "assignment":
            continue
        lhs = s.get("lhs", "")
        fn = (s.get("sourceLocation") or {}).get("function", "")
        if lhs.startswith("goto_symex$$return_value") and fn.startswith("kani::any_raw_"):
            v = s.get("value", {})
            b = v.get("binary")
            if b is None:
                continue
            vals.append(int(b, 2))
    return vals


def verify_one(h, table, outdir):
    res = dict(name=h["name"], full=h["full"], kind=h["kind"], unwind=h["unwind"],
               unwindset=h.get("unwindset", ""), stubs=h["stubs"], verdict=None)
    meta = table.get(h["full"])
    if meta is None:
        res.update(verdict="ERROR", detail="harness not found in kani metadata")
        return res
    goto, err = link_harness(meta, outdir, h)
    if err:
        res.update(verdict="ERROR", detail=err)
        return res
    rc, out, wall, err = run_cbmc(goto, h)
    res["wall_s"] = round(wall, 2)
    if rc == "TIMEOUT":
        res.update(verdict="INCONCLUSIVE", detail="timeout %ss" % h["timeout"])
        return res
    if rc == "ERROR":
        res.update(verdict="ERROR", detail=err)
        return res
    status, results, msgs = parse_cbmc_json(out)
    sym, sol = solver_times(msgs)
    res["symex_s"], res["solver_s"] = round(sym, 2), round(sol, 2)
    res["steps"], res["vccs"] = program_size(msgs)
    if status is None:
        oom = any("out of memory" in m.lower() or "bad_alloc" in m.lower() for m in msgs) or rc in (-6, -9, 134, 137, 6)
        res.update(verdict="INCONCLUSIVE", detail="no verdict from cbmc (rc=%s%s)" % (rc, ", out of memory" if oom else ""))
        return res
    fails, unwind, cover_seen, cover_reached, nprops = classify(results)
    res["properties"] = nprops
    res["cover_reached"] = cover_reached
    if fails:
        res["verdict"] = "FAILURE"
        f0 = fails[0]
        res["failed_property"] = f0.get("property")
        res["failed_desc"] = "%s [in %s]" % (f0.get("description"), (f0.get("sourceLocation") or {}).get("function", f0.get("property")))
        res["failed_loc"] = "%s:%s" % ((f0.get("sourceLocation") or {}).get("file", "?"),
                                       (f0.get("sourceLocation") or {}).get("line", "?"))
        res["n_failed"] = len(fails)
        # second run: trace for this property only
        vals = None
        # counterexample run: first without formula slicing (complete input sequence; needs more
        # memory), then, if that did not produce a trace, with slicing
        for attempt in ("full", "sliced"):
            h2 = dict(h, mem=str(float(h["mem"]) * 3))
            extra = ["--trace", "--property", f0["property"]] + (["--verif-keep-slice"] if attempt == "sliced" else [])
            rc2, out2, wall2, _ = run_cbmc(goto, h2, extra=extra, timeout=float(h["timeout"]) * 2)
            if isinstance(rc2, int) and out2:
                _, results2, _ = parse_cbmc_json(out2)
                for r in results2:
                    if r.get("property") == f0["property"] and r.get("trace"):
                        vals = extract_values(r["trace"])
            res["trace_run"] = "%s rc=%s" % (attempt, rc2)
            if vals is not None:
                break
        res["cex_values"] = vals
        return res
    if unwind:
        # only the designated loop counts as "the program's effects never end"; any other loop
        # that needs more unwinding is a bound chosen too small by the harness = inconclusive
        key = h.get("unwind_is_violation")
        hit = [u for u in unwind if key and key in ((u.get("sourceLocation") or {}).get("function", "") + " " + u.get("property", ""))]
        if hit and len(hit) == len(unwind):
            res.update(verdict="FAILURE", failed_property=hit[0].get("property"),
                       failed_desc="loop exceeds the step bound the property states: %s [in %s]"
                                   % (hit[0].get("description", ""), (hit[0].get("sourceLocation") or {}).get("function", "")),
                       cex_values=None, n_failed=len(hit), step_bound=True)
            return res
        u0 = unwind[0]
        res.update(verdict="INCONCLUSIVE",
                   detail="unwinding assertion failed: %s (%s) [in %s]" % (u0.get("property"), u0.get("description"),
                                                                          (u0.get("sourceLocation") or {}).get("function", "")))
        return res
    if False:
        if False:
            return res
        res.update(verdict="INCONCLUSIVE",
                   detail="unwinding assertion failed: %s (%s)" % (unwind[0].get("property"), unwind[0].get("description")))
        return res
    if status != "success" and not (status == "failure" and cover_reached):
        # (a reached cover property is reported by CBMC as a "failure" of assert(!reached))
        res.update(verdict="INCONCLUSIVE", detail="cbmc status %s without failing property" % status)
        return res
    if cover_seen and not cover_reached:
        res.update(verdict="VACUOUS", detail="end of harness unreachable (assumptions unsatisfiable or path cut)")
        return res
    res["verdict"] = "SUCCESS"
    return res


# ---------------------------------------------------------------------------
# native replay
# ---------------------------------------------------------------------------
def write_dispatch(repo, files, hs):
    """generate src/verif_dispatch.rs + src/bin/verif_replay.rs in the scratch copy"""
    arms = []
    for h in hs:
        if h["file"] in files:
            arms.append('        "%s" => crate::%s(),' % (h["full"], h["full"]))
    code = """// generated
pub fn run(name: &str) -> bool {
    match name {
%s
%s
        _ => return false,
    }
    true
}
pub fn main() {
    let a: Vec<String> = std::env::args().collect();
    let name = a[1].clone();
    let vals: Vec<u128> = a[2..].iter().map(|x| x.parse::<u128>().unwrap()).collect();
    crate::vlib::replay::load(vals);
    let r = std::panic::catch_unwind(|| run(&name));
    match r {
        Ok(true) => { println!("REPLAY-RESULT: PASSED"); }
        Ok(false) => { println!("REPLAY-RESULT: UNKNOWN-HARNESS"); }
        Err(_) => {
            if crate::vlib::replay::was_assume_failed() { println!("REPLAY-RESULT: ASSUME-FAILED"); }
            else { println!("REPLAY-RESULT: ASSERTION-FAILED"); }
        }
    }
}
""" % ("\n".join(arms), '        "spec_selftest" => crate::core::execute::verif_ex::spec_selftest(),' if "h_ex.rs" in files else "")
    open(os.path.join(repo, "src", "verif_dispatch.rs"), "w").write(code)
    with open(os.path.join(repo, "src", "lib.rs"), "a") as fh:
        fh.write("\n#[cfg(verif_replay)]\npub mod verif_dispatch;\n")
    os.makedirs(os.path.join(repo, "src", "bin"), exist_ok=True)
    open(os.path.join(repo, "src", "bin", "verif_replay.rs"), "w").write(
        "fn main() {\n    #[cfg(verif_replay)]\n    hyeong::verif_dispatch::main();\n}\n")


_replay_lock = threading.Lock()
_replay_built = {}


def build_replay(repo, prop, profile, private=False):
    import fcntl
    key = (repo, profile, private)
    with _replay_lock:
        if key in _replay_built:
            return _replay_built[key]
        # private: own target directory inside the run's scratch directory (used when the binary from the
        # shared cache turned out to belong to a concurrently running check of another property)
        tdir = os.path.join(os.path.dirname(repo), "rt_private") if private else os.path.join(CACHE, "rt")
        os.makedirs(tdir, exist_ok=True)
        env = dict(os.environ, CARGO_NET_OFFLINE="true", RUSTFLAGS="--cfg verif_replay -A warnings",
                   CARGO_TARGET_DIR=tdir)
        cmd = ["cargo", "build", "--offline", "--bin", "verif_replay"]
        if profile == "release":
            cmd.append("--release")
        with open(os.path.join(CACHE, "rt.lock"), "w") as lk:
            fcntl.flock(lk, fcntl.LOCK_EX)
            r = run(cmd, cwd=repo, env=env)
            if r.returncode != 0:
                log(r.stdout[-5000:])
                _replay_built[key] = None
                return None
            b = os.path.join(os.path.dirname(repo), "verif_replay_" + profile + ("_p" if private else ""))
            shutil.copy(os.path.join(tdir, profile if profile == "release" else "debug", "verif_replay"), b)
        _replay_built[key] = b
        return b


def replay_native(repo, prop, full, vals):
    """returns dict profile -> outcome"""
    out = {}
    for profile in ("debug", "release"):
        b = build_replay(repo, prop, profile)
        if b is None:
            out[profile] = "BUILD-FAILED"
            continue
        try:
            r = subprocess.run([b, full] + [str(v) for v in vals], stdout=subprocess.PIPE,
                               stderr=subprocess.PIPE, text=True, timeout=120)
            m = re.search(r"REPLAY-RESULT: (\S+)", r.stdout)
            if m and m.group(1) == "UNKNOWN-HARNESS":
                # the shared-cache binary was built for another run's dispatch table: rebuild privately, once
                b = build_replay(repo, prop, profile, private=True)
                if b is not None:
                    r = subprocess.run([b, full] + [str(v) for v in vals], stdout=subprocess.PIPE,
                                       stderr=subprocess.PIPE, text=True, timeout=120)
                    m = re.search(r"REPLAY-RESULT: (\S+)", r.stdout)
            if m:
                out[profile] = m.group(1)
            else:
                out[profile] = "EXIT-%s" % r.returncode
            out[profile + "_stderr"] = r.stderr[-1500:]
        except subprocess.TimeoutExpired:
            out[profile] = "TIMEOUT"
    return out


# ---------------------------------------------------------------------------
REPO_CORE = ("execute", "optimize", "area", "state", "parse", "compile", "code")


def is_engine_artifact(r):
    m = re.search(r"\[in (.*)\]$", r.get("failed_desc") or "")
    fn = (m.group(1) if m else "").lstrip("<")
    if fn.startswith(("std::", "alloc::", "kani::", "__rust", "memcmp", "_RNv", "_RIN")):
        return True
    if fn.startswith("core::"):
        return not fn.startswith(tuple("core::%s::" % x for x in REPO_CORE))
    return False


def load_known():
    known, fixed = [], []
    p = os.path.join(VERIF, "known_findings.txt")
    if os.path.exists(p):
        for line in open(p, encoding="utf-8"):
            line = line.strip()
            if line.startswith("known:"):
                d = dict(re.findall(r"(\w+)=(\S+)", line))
                d["text"] = line
                known.append(d)
            elif line.startswith("fixed:"):
                fixed.append(line)
    return known, fixed


def main():
    args = sys.argv[1:]
    if not args:
        raise SystemExit(__doc__)
    if args[0] == "--warm":
        all_h = scan_harnesses()
        attach = ["vlib.rs"] + (["spec.rs"] if os.path.exists(os.path.join(HARN, "spec.rs")) else []) + ["h_bn.rs"]
        d, repo = prepare_scratch("warm-%d" % os.getpid(), attach)
        try:
            write_dispatch(repo, attach, all_h)
            kani_codegen(repo, "warm", os.path.join(d, "kout"))
            for prof in ("debug", "release"):
                build_replay(repo, "warm", prof)
        finally:
            shutil.rmtree(d, ignore_errors=True)
        return
    prop = args[0]
    tier = os.environ.get("VERIF_TIER", "quick")
    only = None
    keep = False
    jobs = int(os.environ.get("VERIF_JOBS", "12"))
    replay_file = None
    i = 1
    while i < len(args):
        if args[i] == "--tier":
            tier = args[i + 1]; i += 2
        elif args[i] == "--only":
            only = args[i + 1]; i += 2
            global PARTIAL
            PARTIAL = True
        elif args[i] == "--keep":
            keep = True; i += 1
        elif args[i] == "--jobs":
            jobs = int(args[i + 1]); i += 2
        elif args[i] == "--replay":
            replay_file = args[i + 1]; i += 2
        else:
            raise SystemExit("unknown argument " + args[i])
    seed = int(os.environ.get("VERIF_SEED", "0") or 0)
    t_start = time.time()

    all_h = scan_harnesses()
    mine = [h for h in all_h if h.get("prop") == prop]
    if not mine:
        raise SystemExit("no harnesses for property " + prop)
    files = sorted({h["file"] for h in mine})
    attach = ["vlib.rs"] + (["spec.rs"] if os.path.exists(os.path.join(HARN, "spec.rs")) else [])
    # h_bn.rs carries the raw BigNum accessors every module uses
    for f in ["h_bn.rs"] + files:
        if f not in attach:
            attach.append(f)
    # harness modules may use helpers of other harness modules
    deps = {"h_ex.rs": ["h_num.rs"], "h_opt.rs": ["h_num.rs", "h_ex.rs"], "h_co.rs": ["h_num.rs"],
            "h_io.rs": [], "h_pa.rs": [], "h_area.rs": ["h_num.rs"], "h_st.rs": ["h_num.rs", "h_ex.rs"]}
    for f in list(attach):
        for d in deps.get(f, []):
            if d not in attach and os.path.exists(os.path.join(HARN, d)):
                attach.append(d)

    tag = "%s-%d" % (prop, os.getpid())

    if replay_file:
        rp = json.load(open(replay_file))
        d, repo = prepare_scratch(tag, attach)
        try:
            write_dispatch(repo, attach, all_h)
            out = replay_native(repo, prop, rp["harness"], rp["values"])
            print(json.dumps(out, indent=1))
            bad = any(out.get(p) == "ASSERTION-FAILED" or str(out.get(p, "")).startswith("EXIT-") for p in ("debug", "release"))
            if bad:
                print("VIOLATION property=%s replay=%s" % (prop, replay_file))
                sys.exit(1)
            sys.exit(0)
        finally:
            if not keep:
                shutil.rmtree(d, ignore_errors=True)

    sel = []
    for h in mine:
        if only and only not in h["name"]:
            continue
        if tier == "quick" and h["tier"] != "quick":
            continue
        sel.append(h)
    # VERIF_SEED only permutes scheduling order
    if seed:
        import random
        random.Random(seed).shuffle(sel)
    sel.sort(key=lambda h: -float(h["timeout"]))

    d, repo = prepare_scratch(tag, attach)
    results = []
    try:
        write_dispatch(repo, attach, all_h)
        selftest = None
        if prop == "C01":
            # oracle validation: the step definition against the repository's own test programs (native)
            b = build_replay(repo, prop, "debug")
            if b:
                try:
                    r0 = subprocess.run([b, "spec_selftest"], stdout=subprocess.PIPE, stderr=subprocess.PIPE, text=True, timeout=300)
                    m0 = re.search(r"SPEC-SELFTEST: (.*)", r0.stdout)
                    ok0 = "REPLAY-RESULT: PASSED" in r0.stdout and m0
                    selftest = m0.group(1) if ok0 else "FAILED: " + (r0.stdout[-300:] + r0.stderr[-600:])
                except subprocess.TimeoutExpired:
                    selftest = "FAILED: timeout"
            else:
                selftest = "FAILED: native build failed"
            log("[%s] step definition vs repository test programs: %s" % (prop, selftest))
        table, t_codegen = kani_codegen(repo, prop, os.path.join(d, "kout"), [h["full"] for h in sel])
        log("[%s] kani codegen %.1fs, %d harnesses compiled, %d selected (tier %s)"
            % (prop, t_codegen, len(table), len(sel), tier))
        outdir = os.path.join(d, "goto")
        os.makedirs(outdir)
        with ThreadPoolExecutor(max_workers=jobs) as ex:
            futs = [ex.submit(verify_one, h, table, outdir) for h in sel]
            for h, f in zip(sel, futs):
                r = f.result()
                results.append(r)
                log("  %-34s %-12s %6.1fs %s" % (r["name"], r["verdict"], r.get("wall_s", 0),
                                                 r.get("detail", r.get("failed_desc", "")) or ""))

        # ---- interpretation
        known, fixed = load_known()
        violations, known_hits, broken, inconcl, warnings, artifacts = [], [], [], [], [], []
        os.makedirs(os.path.join(VERIF, "replays", prop), exist_ok=True)
        for h, r in zip(sel, results):
            v = r["verdict"]
            if h["kind"] == "model":
                # validity check of a contract model against the real code below it
                if v != "SUCCESS":
                    # A stale model is not an alarm and does not break the check: harnesses over the exact
                    # model may then report counterexamples that do not replay (handled there), while the
                    # contract-model harnesses stay sound for every implementation meeting the lower contract.
                    warnings.append("model validity harness %s: %s %s" % (r["name"], v, r.get("failed_desc") or r.get("detail") or ""))
                    r["model_warning"] = True
                continue
            if h["kind"] == "twin":
                # vacuity twin: must FAIL, otherwise the family proves nothing
                if v != "FAILURE":
                    broken.append("vacuity twin %s did not fail (%s)" % (r["name"], v))
                r["twin_ok"] = (v == "FAILURE")
                continue
            if v == "SUCCESS":
                continue
            if v == "FAILURE":
                vals = r.get("cex_values")
                rp = os.path.join(VERIF, "replays", prop, r["name"] + ".json")
                rec = dict(property=prop, harness=r["full"], values=vals or [],
                           failed=r.get("failed_desc"), at=r.get("failed_loc"))
                if vals is None and r.get("step_bound"):
                    # the designated loop did not finish within its unwinding bound: natively the same
                    # (input-free) harness must then hang or fail - it is run under a time limit
                    rec["note"] = "step-bound violation: the loop did not finish within the unwinding bound"
                    rep = replay_native(repo, prop, r["full"], [])
                    if any(rep.get(p) in ("TIMEOUT", "ASSERTION-FAILED") for p in ("debug", "release")):
                        rep["debug"] = "NOT-REPLAYABLE"   # marker understood below: reproduced
                        rep["native"] = "does not terminate / fails natively within 120 s"
                elif vals is None:
                    rep = {"debug": "NO-TRACE"}
                else:
                    rep = replay_native(repo, prop, r["full"], vals)
                r["replay"] = {k: v2 for k, v2 in rep.items() if not k.endswith("_stderr")}
                rec["replay"] = rep
                json.dump(rec, open(rp, "w"), indent=1)
                reproduced = any(rep.get(p) == "ASSERTION-FAILED" or str(rep.get(p, "")).startswith("EXIT-")
                                 for p in ("debug", "release")) or rep.get("debug") == "NOT-REPLAYABLE"
                if h.get("replay") == "none":
                    reproduced = True   # harness compares against a model only; documented per harness
                    r["replay"]["note"] = "not natively replayable (stubbed environment); reported on the solver's verdict"
                if not reproduced and h["kind"] != "stretch" and is_engine_artifact(r):
                    # CBMC's object numbering depends on what else was compiled with the harness; a
                    # borderline harness can be decided when it is compiled and run on its own
                    try:
                        iso = os.path.join(d, "iso_" + r["name"])
                        t2, _ = kani_codegen(repo, prop, os.path.join(iso, "kout"), [h["full"]])
                        os.makedirs(os.path.join(iso, "goto"), exist_ok=True)
                        r2 = verify_one(h, t2, os.path.join(iso, "goto"))
                    except SystemExit:
                        r2 = {"verdict": "ERROR"}
                    if r2.get("verdict") == "SUCCESS":
                        r2["detail"] = "decided on an isolated re-run (the batch run ended in an engine artifact)"
                        r.clear()
                        r.update(r2)
                        continue
                    # A failure reported INSIDE the standard library's allocation / pointer / formatting
                    # internals that does not replay natively is CBMC's imprecision on allocations whose
                    # size became symbolic (DESIGN.md 2.5), not a statement about the code under test and
                    # not an oracle bug: the grid point is "not covered".  (Real panics inside std replay.)
                    artifacts.append(r["name"])
                    inconcl.append(r["name"])
                    r["detail"] = "engine artifact (non-replaying failure inside std internals): not covered"
                    continue
                if not reproduced and h["kind"] == "stretch":
                    # stretch harness at the edge of the engine's reach: a failure that does not replay
                    # (typically CBMC's handling of allocations whose size became symbolic) is "not covered"
                    inconcl.append(r["name"])
                    r["detail"] = "solver failure without a native reproduction: treated as not covered"
                    continue
                if not reproduced and h.get("replay") == "optional":
                    # harness over an over-approximating contract model: a counterexample that needs a
                    # model behaviour the real lower level never shows is not a violation of the real system
                    r["contract_warning"] = "counterexample depends on a contract-model choice the real code below does not make; not reported"
                    warnings.append(r["name"])
                    continue
                if not reproduced:
                    broken.append("counterexample of %s does not reproduce natively: %s" % (r["name"], r["replay"]))
                    continue
                kh = [k for k in known if k.get("property") == prop and k.get("harness") == r["name"]]
                if kh:
                    known_hits.append((r, kh[0]))
                else:
                    violations.append((r, rp))
            elif v in ("INCONCLUSIVE", "VACUOUS", "ERROR"):
                if h["kind"] == "stretch" and v == "INCONCLUSIVE":
                    inconcl.append(r["name"])
                else:
                    broken.append("%s: %s (%s)" % (r["name"], v, r.get("detail", "")))

        if selftest is not None and selftest.startswith("FAILED"):
            broken.append("oracle validation failed - the step definition disagrees with the repository's own tests: " + selftest)
        SELFTEST[0] = selftest
        n_must = sum(1 for h in sel if h["kind"] == "must")
        if n_must and len(artifacts) * 10 > n_must * 3:
            broken.append("%d of %d must harnesses ended in engine artifacts: too little was decided to call the run a pass" % (len(artifacts), n_must))
        write_evidence(prop, tier, seed, sel, results, violations, known_hits, broken, inconcl,
                       t_codegen, time.time() - t_start)
        for r, k in known_hits:
            print("KNOWN-FINDING: property=%s %s" % (prop, k["text"]))
        for r, rp in violations:
            print("VIOLATION property=%s replay=%s" % (prop, rp))
            print("  harness %s: %s at %s; inputs %s; native replay %s"
                  % (r["name"], r.get("failed_desc"), r.get("failed_loc"), r.get("cex_values"), r.get("replay")))
        for b in broken:
            print("MACHINERY-PROBLEM: " + b)
        for w in warnings:
            print("NOTE: " + str(w))
        ok = sum(1 for r in results if r["verdict"] == "SUCCESS")
        print("[%s/%s] %d harnesses: %d hold within bounds, %d violations, %d known, %d not covered (stretch), %d machinery problems; %.0fs"
              % (prop, tier, len(results), ok, len(violations), len(known_hits), len(inconcl), len(broken), time.time() - t_start))
        if violations:
            sys.exit(1)
        if broken:
            sys.exit(2)
        sys.exit(0)
    finally:
        if not keep:
            shutil.rmtree(d, ignore_errors=True)


def describe(h):
    p = os.path.join(HARN, h["file"])
    return "%s (%s)" % (h["full"], h.get("what", "see " + h["file"]))


def write_evidence(prop, tier, seed, sel, results, violations, known_hits, broken, inconcl, t_codegen, wall):
    sys.path.insert(0, HERE)
    try:
        import propinfo
        info = propinfo.INFO.get(prop, {})
    except Exception:
        info = {}
    WHAT = {h["name"]: h.get("what", "") for h in sel}
    n_ok = sum(1 for r in results if r["verdict"] == "SUCCESS")
    props_total = sum(r.get("properties", 0) for r in results)
    samples = []
    for h, r in list(zip(sel, results))[:12]:
        samples.append(dict(harness=r["full"], what=h.get("what", ""), unwind=r["unwind"], unwindset=r["unwindset"],
                            stubs=r["stubs"], verdict=r["verdict"], cbmc_properties=r.get("properties"),
                            symex_s=r.get("symex_s"), solver_s=r.get("solver_s"), wall_s=r.get("wall_s")))
    ev = dict(
        property_id=prop, tier=tier, seed=seed, level=info.get("level", "model_checking"),
        coverage=dict(
            states=max(1, sum(r.get("vccs") or 0 for r in results)),
            transitions=max(1, sum(r.get("steps") or 0 for r in results)),
            traces_validated_against_impl=sum(1 for r in results if r.get("replay")),
            states_transitions_meaning="states = verification conditions generated by CBMC over all harnesses of this run; transitions = SSA steps of the symbolically executed program; traces = solver counterexamples replayed against a native build",
            evaluations=len(results),
            distinct_nontrivial=n_ok + len(violations) + len(known_hits),
            rule="one evaluation = one Kani/CBMC harness (a bounded symbolic query over the real code compiled from /repo's working tree); "
                 "counted as non-trivial when the solver returned a verdict (holds for all values within the bound, or a counterexample) "
                 "and the end of the harness was shown reachable",
            samples=samples,
            explanation=info.get("explanation", ""),
            functions_encoded=info.get("functions", []),
            bounds=info.get("bounds", ""),
            outside_claim=info.get("outside", ""),
            harnesses=[dict(name=r["name"], what=WHAT.get(r["name"], ""), verdict=r["verdict"], kind=r["kind"], unwind=r["unwind"],
                            unwindset=r["unwindset"], stubs=r["stubs"], properties=r.get("properties"),
                            symex_s=r.get("symex_s"), solver_s=r.get("solver_s"), wall_s=r.get("wall_s"),
                            detail=r.get("detail") or r.get("failed_desc"), cex=r.get("cex_values"),
                            replay=r.get("replay")) for r in results],
            queries_discharged=n_ok,
            cbmc_properties_checked=props_total,
            solver_time_s=round(sum(r.get("solver_s") or 0 for r in results), 1),
            symex_time_s=round(sum(r.get("symex_s") or 0 for r in results), 1),
            kani_codegen_s=round(t_codegen, 1),
            not_covered=inconcl,
            machinery_problems=broken,
            known_findings=[k["text"] for _, k in known_hits],
            repo_src_digest=src_digest(),
            oracle_validation=SELFTEST[0],
            exhaustive=False,
        ),
        assumptions=info.get("assumptions", []) + [
            "Kani 0.68 MIR->GOTO translation and CBMC 6.11 + CaDiCaL are trusted",
            "every pass is a bounded claim: it holds for all values of the symbolic inputs inside the stated sizes/unwindings, nothing is claimed outside"],
        wall_s=round(wall, 1),
        violations=len(violations),
    )
    os.makedirs(os.path.join(VERIF, "evidence"), exist_ok=True)
    # development runs (a harness subset, or a tree other than /repo) must not overwrite the
    # evidence of the last full run
    name = prop + ".json" if (not PARTIAL and REPO == "/repo") else prop + ".partial.json"
    json.dump(ev, open(os.path.join(VERIF, "evidence", name), "w"), indent=1, ensure_ascii=False)


if __name__ == "__main__":
    main()
