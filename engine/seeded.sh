#!/bin/bash
# usage: seeded.sh verify <srcdir> <prop> <name>   - confirm a candidate change in a scratch worktree and store it under /verif/seeded/<name>
#        seeded.sh run <name> [tier] [only]         - run the property's check against the stored change (scratch worktree of /repo + patch)
# Scratch worktrees live under /tmp and are removed afterwards.
set -u
V=/verif
cmd=$1
if [ "$cmd" = verify ]; then
  src=$2; prop=$3; name=$4
  wt=/tmp/sv_$name
  git -C /repo worktree remove --force $wt 2>/dev/null; rm -rf $wt
  git -C /repo worktree add -q $wt HEAD || exit 2
  export CARGO_TARGET_DIR=$wt/target CARGO_NET_OFFLINE=true
  demo=$(ls $src/*.rs | head -1); dn=$(basename $demo .rs)
  cp $demo $wt/tests/
  cd $wt
  base_demo=$(cargo test --offline --test $dn 2>&1 | grep -E "^test result" | tail -1)
  git apply $src/patch.diff || { echo "patch does not apply"; exit 2; }
  cargo build --offline 2>&1 | grep -E "^error" | head -3
  suite=$($V/engine/run_tests.sh $wt | head -1)
  mut_demo=$(timeout 600 cargo test --offline --test $dn 2>&1 | grep -E "^test result" | tail -1)
  echo "[$name] demo on clean tree : $base_demo"
  echo "[$name] suite with change  : $suite"
  echo "[$name] demo with change   : $mut_demo"
  ok=1
  echo "$base_demo" | grep -q " 0 failed" || ok=0
  echo "$suite" | grep -q "passed=104 failed=0" || ok=0
  echo "$mut_demo" | grep -qE " [1-9][0-9]* failed" || ok=0
  cd /; git -C /repo worktree remove --force $wt; rm -rf $wt
  if [ $ok = 1 ]; then
    mkdir -p $V/seeded/$name
    cp $src/patch.diff $V/seeded/$name/patch.diff
    cp $src/*.rs $src/*.hyeong $src/*.sh $V/seeded/$name/ 2>/dev/null
    cp $src/README.txt $V/seeded/$name/AUTHOR_README.txt 2>/dev/null
    python3 - "$name" "$prop" "$base_demo" "$suite" "$mut_demo" <<'PY'
import json,sys
name,prop,b,s,m=sys.argv[1:6]
json.dump(dict(id=name, breaks_property=prop,
  confirmed=dict(demo_on_clean_tree=b, suite_with_change=s, demo_with_change=m,
                 how="scratch git worktree of /repo HEAD; cargo test --offline --test <demo>; engine/run_tests.sh (104 tests)"),
  needs="see AUTHOR_README.txt", detected_by=None),
  open('/verif/seeded/%s/meta.json'%name,'w'), indent=1, ensure_ascii=False)
PY
    echo "[$name] CONFIRMED -> $V/seeded/$name"
  else
    echo "[$name] NOT CONFIRMED"
  fi
  exit 0
fi
if [ "$cmd" = run ]; then
  name=$2; tier=${3:-quick}; only=${4:-}
  prop=$(python3 -c "import json;print(json.load(open('$V/seeded/$name/meta.json'))['breaks_property'])")
  wt=/tmp/sr_$name
  git -C /repo worktree remove --force $wt 2>/dev/null; rm -rf $wt
  git -C /repo worktree add -q $wt HEAD || exit 2
  git -C $wt apply $V/seeded/$name/patch.diff || exit 2
  cd $V
  VERIF_REPO=$wt ./check $prop --tier $tier ${only:+--only $only} ${JOBS:+--jobs $JOBS} > /tmp/sr_$name.log 2>&1
  rc=$?
  grep -E "VIOLATION|MACHINERY|^\[|FAILURE|INCONCLUSIVE" /tmp/sr_$name.log | head -20
  echo "[$name] check $prop exit=$rc"
  git -C /repo worktree remove --force $wt; rm -rf $wt
  exit 0
fi
