#!/bin/bash
# runs the repository's stable baseline (all integration tests except the 4 network-dependent build tests)
# usage: run_tests.sh [repo-dir]   -> prints "passed=<n> failed=<m>", exit 0 iff failed=0 and passed=104
R=${1:-/repo}
cd "$R" || exit 2
out=$(CARGO_NET_OFFLINE=true cargo test --offline --no-fail-fast \
  --test big_number_test --test code_test --test execute_test --test io_test \
  --test number_test --test optimize_test --test parse_test 2>&1)
p=$(echo "$out" | grep -E "^test result" | sed -E 's/.* ([0-9]+) passed.*/\1/' | paste -sd+ | bc)
f=$(echo "$out" | grep -E "^test result" | sed -E 's/.* ([0-9]+) failed.*/\1/' | paste -sd+ | bc)
echo "passed=${p:-0} failed=${f:-0}"
if [ "${f:-1}" != "0" ] || [ "${p:-0}" != "104" ]; then echo "$out" | grep -E "FAILED|panicked|error" | head -20; exit 1; fi
