#!/usr/bin/env python3
"""Writes /verif/MANIFEST.json from the table below (single source of truth for what is claimed)."""
import json, os
VERIF = os.path.dirname(os.path.dirname(os.path.abspath(__file__)))

TECH = "Kani 0.68 -> CBMC 6.11 bounded model checking (SAT, CaDiCaL) of the real Rust functions compiled from /repo's working tree; symbolic inputs, unwinding assertions on; counterexamples replayed natively"

CLAIMED = {
 "C05": dict(cat="model_checking", ref="DESIGN.md §3 C05",
   text="Bounded: the real limb kernels (add/sub/less 1..3 limbs, mult up to 2x2, div 1x1 with constant divisors) and the public sign-dispatching operations, in-place variants, rem formula, gcd loop and BigNum::new are decided for every limb value and sign inside those sizes by SAT; a green run says nothing about longer operands or symbolic divisors.",
   note="Trusted: Kani MIR->GOTO, CBMC, CaDiCaL. Oracles: u128/i128 arithmetic, partial-product sums, division lemma. rem/gcd/in-place div are decided over exact one-limb models of the operations below them (stubs listed in evidence)."),
 "C06": dict(cat="model_checking", ref="DESIGN.md §3 C06",
   text="Bounded: the real Num::add/mul/optimize/flip/neg/minus/floor/is_pos and the NaN short-circuits are decided by SAT for all operand values inside small ranges (exact Euclid model: 4-7 bit; gcd contract model: 8-16 bit; loop-free operations: full 32-bit limb) against the canonical form of the exact rational result. Multi-limb operands are outside the claim.",
   note="Trusted: Kani, CBMC, CaDiCaL, and the one-limb models of BigNum::{add,mul,div,gcd} that replace the bignum layer (that layer is decided under C05; a model-validity harness compares the gcd model with the real loop)."),
 "C07": dict(cat="model_checking", ref="DESIGN.md §3 C07",
   text="Bounded: for every pair of rationals with one-limb (32-bit) numerator/denominator and every sign, and NaN, the real partial_cmp returns the numeric order / None; branch choice of area::calc for small trees. The solver decides all 2^130 value combinations inside the bound; nothing is claimed for multi-limb operands.",
   note="Trusted: Kani's MIR->GOTO translation, CBMC, CaDiCaL. Oracle: two u64 products. Assumes canonical inputs only as far as 'equal value => equal structure'."),
}

NOT_APPLICABLE = {
 "C11": "debug::run keeps history stack, breakpoints and running flag as locals of one function that talks to real stdin/termcolor/ctrl-c; no part of that state logic can be executed symbolically without the I/O loop (Kani cannot model the FFI), and add-only hooks cannot split it. Its encodable dependencies (execute_one by value, CustomWriter::flush) are decided under C01/C12.",
 "C13": "process-level property (clap argument parsing, file system, io::handle -> process::exit): not encodable for a SAT-based checker of Rust code; the library-level panic-freedom it rests on is checked as a by-product of the C01/C02/C04/C10 harnesses.",
}
PENDING = "check not built yet in this session (solver harness under construction); see DESIGN.md for the plan"

ALL = ["C%02d" % i for i in range(1, 15)]


def main():
    checks = []
    for pid in ALL:
        if pid in CLAIMED:
            c = CLAIMED[pid]
            checks.append(dict(
                property_id=pid,
                quick_cmd="./check %s --tier quick" % pid,
                thorough_cmd="./check %s --tier thorough" % pid,
                evidence_file="evidence/%s.json" % pid,
                replay_cmd_template="./check %s --replay {path}" % pid,
                engine="kani-cbmc",
                level_claimed=dict(category=c["cat"], text=c["text"], design_ref=c["ref"]),
                level_note=c["note"],
                technique=c.get("tech", TECH)))
    na = []
    for pid in ALL:
        if pid in CLAIMED:
            continue
        na.append(dict(property_id=pid, reason=NOT_APPLICABLE.get(pid, PENDING)))
    m = dict(
        version=1,
        setup_cmd="./setup.sh",
        hooks=dict(guard="cfg(kani) / cfg(verif_replay) (set only by the checker's own builds of a scratch copy)",
                   enable="no hook is committed to /repo: harness modules in /verif/harness are attached to a scratch copy of the working tree as child modules (`#[cfg(any(kani, verif_replay))] #[path=..] mod verif_x;`) on every run",
                   baseline_off_cmd="cd /repo && cargo test --workspace --no-fail-fast --offline",
                   source_commits=[], add_only=True),
        engines=[dict(name="kani-cbmc", path="engine/check.py", serves_properties=sorted(CLAIMED),
                      kind_free_text="scratch copy of /repo + harness child modules -> cargo kani --only-codegen -> goto-cc/goto-instrument -> cbmc (per-loop unwindsets, caps) -> native replay of counterexamples")],
        checks=checks,
        notes="All checks are bounded SAT verdicts over the real code (see DESIGN.md); exit 2 = machinery problem (never an alarm). Fixes of genuine defects are 'fix:' commits in /repo, recorded in known_findings.txt.",
        not_applicable=na)
    json.dump(m, open(os.path.join(VERIF, "MANIFEST.json"), "w"), indent=1, ensure_ascii=False)
    print("MANIFEST.json: %d claimed, %d not applicable" % (len(checks), len(na)))


if __name__ == "__main__":
    main()
