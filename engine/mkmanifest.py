#!/usr/bin/env python3
"""Writes /verif/MANIFEST.json from the table below (single source of truth for what is claimed)."""
import json, os
VERIF = os.path.dirname(os.path.dirname(os.path.abspath(__file__)))

TECH = "Kani 0.68 -> CBMC 6.11 bounded model checking (SAT, CaDiCaL) of the real Rust functions compiled from /repo's working tree; symbolic inputs, unwinding assertions on; counterexamples replayed natively"

CLAIMED = {
 "C01": dict(cat="model_checking", ref="DESIGN.md §3 C01",
   text="Bounded inductive step: ONE execute_one call from an arbitrary invariant-satisfying pre-state (concrete command structure per grid point; every stack value, area count, label entry, input character symbolic) is decided by SAT to produce exactly the post-state, output bytes, reads, next location and exit behaviour of an independent step definition. 55 quick grid points (kinds x operands x stacks x area shapes x I/O stacks). Nothing is claimed for stacks deeper than 3, more than 3 operands, values outside the small domains, or the app/run.rs wiring.",
   note="Trusted: Kani, CBMC, CaDiCaL, the step definition harness/spec.rs, and the value-level models that replace Num::add/mul and the bignum layer (decided separately under C05-C07). State = array-backed implementation of the public State trait with the real trait defaults."),
 "C02": dict(cat="model_checking", ref="DESIGN.md §3 C02",
   text="Bounded, partial: ONE opt_execute call (the optimiser's private re-implementation of the six commands) from the C01 pre-states: if it commits, state and captured output equal the language definition; if it gives up, state, command log and BOTH output streams are exactly as before (an unnecessary give-up is not an error). The level-1 renumbering pass and OptState's in-range push/pop are NOT decided (HashMap / heap-backed vectors are beyond the symbolic executor) - see evidence.outside_claim.",
   note="Same trusted base as C01. Differential through the shared definition: C01 decides execute_one against it, C02 decides opt_execute against it."),
 "C05": dict(cat="model_checking", ref="DESIGN.md §3 C05",
   text="Bounded: the real limb kernels (add/sub/less 1..3 limbs, mult up to 2x2, div 1x1 with constant divisors) and the public sign-dispatching operations, in-place variants, rem formula, gcd loop and BigNum::new are decided for every limb value and sign inside those sizes by SAT; a green run says nothing about longer operands or symbolic divisors.",
   note="Trusted: Kani MIR->GOTO, CBMC, CaDiCaL. Oracles: u128/i128 arithmetic, partial-product sums, division lemma. rem/gcd/in-place div are decided over exact one-limb models of the operations below them (stubs listed in evidence)."),
 "C06": dict(cat="model_checking", ref="DESIGN.md §3 C06",
   text="Bounded: the real Num::add/mul/optimize/flip/neg/minus/floor/is_pos and the NaN short-circuits are decided by SAT for all operand values inside small ranges (exact Euclid model: 4-7 bit; gcd contract model: 8-16 bit; loop-free operations: full 32-bit limb) against the canonical form of the exact rational result. Multi-limb operands and the printing clauses (Display of NaN / of integers without denominator: core::fmt + String growth, probe nan_display gave no verdict) are outside the claim.",
   note="Trusted: Kani, CBMC, CaDiCaL, and the one-limb models of BigNum::{add,mul,div,gcd} that replace the bignum layer (that layer is decided under C05; a model-validity harness compares the gcd model with the real loop)."),
 "C07": dict(cat="model_checking", ref="DESIGN.md §3 C07",
   text="Bounded: for every pair of rationals with one-limb (32-bit) numerator/denominator and every sign, two-limb integers, and NaN, the real partial_cmp returns the numeric order / None; area::calc takes the branch the definition prescribes for 5 area shapes with symbolic popped values (integers, small fractions, NaN) and symbolic count. Nothing is claimed for multi-limb fractions.",
   note="Trusted: Kani, CBMC, CaDiCaL. Oracle: two u64 products. Assumes canonical inputs only as far as 'equal value => equal structure'. The calc harnesses use the one-limb model of BigNum::mul."),
 "C09": dict(cat="model_checking", ref="DESIGN.md §3 C09",
   text="Bounded, partial: the reading direction (from_string_base: every ASCII text of 1-4 characters, bases 2/10/16/36, optional minus, rejection of foreign characters), the base-range errors of both directions, one-digit rendering for every base, and the glue of Num::from_string for the text shapes 'A', '-A' and the NaN text (sign detection/stripping, which digit run becomes the numerator, reduction, sign re-applied; 16-bit A symbolic, over a contract model of BigNum::from_string) are decided by SAT. The fraction shapes 'A/B', '-A/B' of Num::from_string (no verdict within 23 min; thorough/stretch), rendering of more than one digit, the integer round trip and the rational text round trip are NOT decided (strings of value-dependent length are beyond the symbolic executor) - see evidence.outside_claim.",
   note="Trusted: Kani, CBMC, CaDiCaL, one-limb models of BigNum::{mul,add,new,rem,div}."),
 "C10": dict(cat="model_checking", ref="DESIGN.md §3 C10",
   text="Bounded: ONE opt_execute call with stack 0, 1 or 2 selected (before the command or by the command itself) for every command kind and all stack values: it returns 'gave up' with the untouched pre-state, the reader stub is never called, the exit stub is never reached, nothing is written. The 100-jump budget (endless label-jump loop and endless white-heart loop: gives up after 100 jumps, state rolled back) is decided in the thorough tier only: the two harnesses unwind the real loop 204 times and need about 3 h each.",
   note="Same trusted base as C01; reader and process::exit are replaced by stubs that turn any use into an assertion failure."),
 "C14": dict(cat="model_checking", ref="DESIGN.md §3 C14",
   text="Bounded, kernels only: the stdin refill (one pending line of 1-3 characters, code point symbolic over its whole UTF-8 length class, or end of input) and the stdout/stderr push (every value 0..0x120000) are decided by SAT against the definition: value = code point, NaN exactly at end of input, bytes = UTF-8 of the scalar or the encoding error. Copy programs as a whole, optimised and compiled variants are not decided.",
   note="Same trusted base as C01; real UTF-8 decoding (str::Chars) and encoding (char Display) are part of the encoded code."),
}

NOT_APPLICABLE = {
 "C03": "compile::build_source is one 300-line format!-pipeline whose result is Rust text that still has to be compiled by rustc and run: Kani/CBMC cannot execute core::fmt at that volume (function-pointer dispatch per argument, strings of symbolic length -> spurious allocation failures, measured on much smaller string code under C09/C04), and the property's observable (behaviour of the produced executable) lies outside any SAT encoding of the repository's code. Defects seen while reading are listed in DESIGN.md, not as findings.",
 "C04": "parse::parse builds Strings and a Vec of commands whose lengths depend on the (symbolic) characters; Kani/CBMC then allocates with symbolic sizes and reports spurious failures (1 symbolic character: false 'encode_utf8 panic' / misaligned-pointer reports that do not replay; 2 characters: out of memory at 12 GB). A harness with an independent recogniser was built (harness/h_pa.rs) and is kept, but it cannot be made to return sound verdicts, so nothing is claimed. The area-cursor defect seen while reading (`?형`) is described in DESIGN.md.",
 "C08": "same engine limit as C04 (parse() on symbolic text, String-building renderers); no sound verdict can be produced.",
 "C11": "debug::run keeps history stack, breakpoints and running flag as locals of one function that talks to real stdin/termcolor/ctrl-c; no part of that state logic can be executed symbolically without the I/O loop (Kani cannot model the FFI), and add-only hooks cannot split it. Its encodable dependency (execute_one by value) is decided under C01.",
 "C12": "interpreter::run is an stdin/termcolor/ctrl-c loop that cannot be encoded; the only reachable part is execute() for one appended command, and that harness family finishes only for commands without an area (2 grid points), which is too thin to call the property decided. The harnesses are kept (prop=C12 in harness/h_ex.rs) and run with `./check C12`, but nothing is claimed.",
 "C13": "process-level property (clap argument parsing, file system, io::handle -> process::exit): not encodable for a SAT-based checker of Rust code; the library-level panic-freedom it rests on is checked as a by-product of the C01/C02/C10 harnesses (CBMC checks every panic site on the explored paths).",
}
PENDING = "not claimed"

ALL = ["C%02d" % i for i in range(1, 15)]


def main():
    checks = []
    for pid in ALL:
        if pid in CLAIMED:
            c = CLAIMED[pid]
            checks.append(dict(
                property_id=pid,
                quick_cmd="./check %s --tier quick" % pid,
                thorough_cmd="./check %s --tier thorough" % pid,
                evidence_file="evidence/%s.json" % pid,
                replay_cmd_template="./check %s --replay {path}" % pid,
                engine="kani-cbmc",
                level_claimed=dict(category=c["cat"], text=c["text"], design_ref=c["ref"]),
                level_note=c["note"],
                technique=c.get("tech", TECH)))
    na = []
    for pid in ALL:
        if pid in CLAIMED:
            continue
        na.append(dict(property_id=pid, reason=NOT_APPLICABLE.get(pid, PENDING)))
    m = dict(
        version=1,
        setup_cmd="./setup.sh",
        hooks=dict(guard="cfg(kani) / cfg(verif_replay) (set only by the checker's own builds of a scratch copy)",
                   enable="no hook is committed to /repo: harness modules in /verif/harness are attached to a scratch copy of the working tree as child modules (`#[cfg(any(kani, verif_replay))] #[path=..] mod verif_x;`) on every run",
                   baseline_off_cmd="cd /repo && cargo test --workspace --no-fail-fast --offline",
                   source_commits=[], add_only=True),
        engines=[dict(name="kani-cbmc", path="engine/check.py", serves_properties=sorted(CLAIMED),
                      kind_free_text="scratch copy of /repo + harness child modules -> cargo kani --only-codegen -> goto-cc/goto-instrument -> cbmc (per-loop unwindsets, caps) -> native replay of counterexamples")],
        checks=checks,
        notes="All checks are bounded SAT verdicts over the real code (see DESIGN.md); exit 2 = machinery problem (never an alarm). Fixes of genuine defects are 'fix:' commits in /repo, recorded in known_findings.txt.",
        not_applicable=na)
    json.dump(m, open(os.path.join(VERIF, "MANIFEST.json"), "w"), indent=1, ensure_ascii=False)
    print("MANIFEST.json: %d claimed, %d not applicable" % (len(checks), len(na)))


if __name__ == "__main__":
    main()
