#!/bin/bash
# usage: prof.sh PROP HARNESS UNWIND SECS [rec]  -> builds (keeps scratch), runs cbmc for SECS, prints unwinding profile
P=$1; H=$2; U=$3; T=$4; R=${5:-5}
cd /verif
./check $P --only $H --keep >/dev/null 2>&1 &
PID=$!
for i in $(seq 1 300); do D=$(ls -d /root/.verif-scratch/$P-$PID 2>/dev/null); pgrep -f "cbmc .*$P-$PID/" >/dev/null && break; sleep 1; done
sleep 2
kill $PID 2>/dev/null; pkill -f "cbmc .*$P-$PID/"
cd $D
F=$(goto-instrument --list-goto-functions goto/$H.goto 2>/dev/null | grep "area::Area" | grep -E "Clone>::clone|drop_glue|clone_one|clone_to_uninit" | sed -E "s/.*\/\* (.*) \*\//\1:$R/" | paste -sd,)
timeout $T cbmc --no-malloc-may-fail --no-undefined-shift-check --no-signed-overflow-check --nan-check --no-self-loops-to-assumptions --no-pointer-primitive-check --object-bits 16 --unwinding-assertions --sat-solver cadical --slice-formula --unwind $U ${F:+--unwindset "$F"} --verbosity 9 goto/$H.goto > prof.log 2>&1
grep -E "Unwinding|Runtime|size of program|VCC|variables|VERIFICATION" prof.log | sed -E 's/iteration [0-9]+//; s/thread.*//; s/file .*function/fn/' | cut -c1-170 | sort | uniq -c | sort -rn | head -${6:-40}
echo "scratch: $D"
