#!/bin/bash
# usage: refactor.sh <name> <prop> [only]  - run a property's quick check on /repo HEAD + a behaviour-preserving refactoring; expected: exit 0
name=$1; prop=$2; only=${3:-}
wt=/tmp/rf_${name}_$prop
git -C /repo worktree remove --force $wt 2>/dev/null; rm -rf $wt
git -C /repo worktree add -q $wt HEAD || exit 2
git -C $wt apply /verif/seeded/refactors/$name/patch.diff || exit 2
cd /verif
VERIF_REPO=$wt ./check $prop --tier quick ${only:+--only $only} ${JOBS:+--jobs $JOBS} > /tmp/rf_${name}_$prop.log 2>&1
rc=$?
grep -E "VIOLATION|MACHINERY|NOTE|^\[" /tmp/rf_${name}_$prop.log | tail -6
echo "[$name on $prop] exit=$rc"
git -C /repo worktree remove --force $wt; rm -rf $wt
