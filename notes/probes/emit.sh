#!/bin/bash
# usage: emit.sh LEVEL PROGRAM [STDIN]
/root/scratch/target/debug/exp --emit "$1" "$2" > /root/scratch/hb/src/main.rs
cd /root/scratch/hb && CARGO_TARGET_DIR=/root/scratch/hbtarget cargo build --offline -q 2>&1 | grep -E '^(error|warning: unused)' -A8 | head -30
printf '%s' "$3" | /root/scratch/hbtarget/debug/hyeong-build; echo " [exit=$?]"
