use super::*;

fn bn(v: i128) -> BigNum { BigNum::verif_raw(v >= 0, vec![v.unsigned_abs() as u32]) }
fn bval(b: &BigNum) -> i128 { let l = b.verif_limbs(); assert!(l.len() == 1); let m = l[0] as i128; if b.is_pos() { m } else { -m } }
fn fits(v: i128) -> i128 { assert!(v.unsigned_abs() < (1u128 << 32)); v }
fn m_add(a: &BigNum, b: &BigNum) -> BigNum { bn(fits(bval(a) + bval(b))) }
fn m_mul(a: &BigNum, b: &BigNum) -> BigNum { bn(fits(bval(a) * bval(b))) }
fn m_div(a: &BigNum, b: &BigNum) -> BigNum { let d = bval(b); kani::assume(d != 0); bn(bval(a) / d) }
fn ref_gcd(mut a: u64, mut b: u64) -> u64 { while b != 0 { let t = a % b; a = b; b = t; } a }
fn m_gcd(a: &BigNum, b: &BigNum) -> BigNum {
    let g = ref_gcd(bval(a).unsigned_abs() as u64, bval(b).unsigned_abs() as u64) as i128;
    let neg: bool = kani::any();
    bn(if neg { -g } else { g })
}

#[kani::proof]
#[kani::stub(BigNum::add, m_add)]
#[kani::stub(BigNum::mul, m_mul)]
#[kani::stub(BigNum::div, m_div)]
#[kani::stub(BigNum::gcd, m_gcd)]
#[kani::unwind(14)]
fn num_add_modelled() {
    let a: i8 = kani::any(); let b: u8 = kani::any(); let c: i8 = kani::any(); let d: u8 = kani::any();
    kani::assume(b != 0 && d != 0 && a != i8::MIN && c != i8::MIN);
    let x = Num { up: bn(a as i128), down: bn(b as i128) };
    let y = Num { up: bn(c as i128), down: bn(d as i128) };
    let r = Num::add(&x, &y);
    let (u, w) = (bval(&r.up), bval(&r.down));
    let up = (a as i128) * (d as i128) + (b as i128) * (c as i128);
    let down = (b as i128) * (d as i128);
    assert!(u * down == up * w);      // value
    assert!(w > 0);                   // canonical sign
    std::mem::forget(r); std::mem::forget(x); std::mem::forget(y);
}
