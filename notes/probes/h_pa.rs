use super::*;
use crate::core::code::Code;
use std::str::pattern::Pattern;

const ALPHA: [char; 12] = ['형', '혀', '엉', '하', '앙', '.', '…', '?', '!', '♥', ' ', '가'];

fn sym_string(n: usize) -> String {
    let mut s = String::new();
    let mut i = 0;
    while i < n {
        let k: usize = kani::any();
        kani::assume(k < ALPHA.len());
        s.push(ALPHA[k]);
        i += 1;
    }
    s
}

// model of str::find / str::contains for P = char (the only instantiation reachable from parse)
fn find_char_model<P: Pattern>(hay: &str, pat: P) -> Option<usize> {
    assert!(std::mem::size_of::<P>() == 4);
    let c: u32 = unsafe { std::mem::transmute_copy(&pat) };
    std::mem::forget(pat);
    let b = hay.as_bytes();
    let mut i = 0;
    while i < b.len() {
        let b0 = b[i] as u32;
        let (cp, l) = if b0 < 0x80 { (b0, 1) }
            else if b0 < 0xE0 { (((b0 & 0x1F) << 6) | (b[i+1] as u32 & 0x3F), 2) }
            else if b0 < 0xF0 { (((b0 & 0x0F) << 12) | ((b[i+1] as u32 & 0x3F) << 6) | (b[i+2] as u32 & 0x3F), 3) }
            else { (((b0 & 0x07) << 18) | ((b[i+1] as u32 & 0x3F) << 12) | ((b[i+2] as u32 & 0x3F) << 6) | (b[i+3] as u32 & 0x3F), 4) };
        if cp == c { return Some(i); }
        i += l;
    }
    None
}
fn contains_char_model<P: Pattern>(hay: &str, pat: P) -> bool { find_char_model(hay, pat).is_some() }

#[kani::proof]
#[kani::stub(str::find, find_char_model)]
#[kani::stub(str::contains, contains_char_model)]
#[kani::unwind(10)]
fn p_parse2() {
    let s = sym_string(2);
    let r = parse(s);
    assert!(r.len() <= 2);
    if r.len() == 1 { assert!(r[0].get_hangul_count() >= 1); }
    std::mem::forget(r);
}

#[kani::proof]
#[kani::stub(str::find, find_char_model)]
#[kani::stub(str::contains, contains_char_model)]
#[kani::unwind(10)]
fn p_parse_c() {
    let r = parse(String::from("형.?♥"));
    assert!(r.len() == 1);
    assert!(r[0].get_dot_count() == 1);
    std::mem::forget(r);
}

#[kani::proof]
#[kani::stub(str::find, find_char_model)]
#[kani::stub(str::contains, contains_char_model)]
#[kani::unwind(10)]
fn p_parse3() {
    let s = sym_string(3);
    let r = parse(s);
    assert!(r.len() <= 3);
    std::mem::forget(r);
}
#[kani::proof]
#[kani::stub(str::find, find_char_model)]
#[kani::stub(str::contains, contains_char_model)]
#[kani::unwind(10)]
fn p_parse4() {
    let s = sym_string(4);
    let r = parse(s);
    assert!(r.len() <= 4);
    std::mem::forget(r);
}

const C3: [&str; 22] = ["형","항","핫","흣","흡","흑","혀","하","흐","엉","앙","앗","읏","읍","윽","가","…","⋯","⋮","♥","❤","♡"];
const C1: [&str; 6] = [".", "?", "!", " ", "\n", "a"];

fn put3(v: &mut [u8], at: usize) { let k: usize = kani::any(); kani::assume(k < C3.len()); let b = C3[k].as_bytes(); v[at] = b[0]; v[at+1] = b[1]; v[at+2] = b[2]; }
fn put1(v: &mut [u8], at: usize) { let k: usize = kani::any(); kani::assume(k < C1.len()); v[at] = C1[k].as_bytes()[0]; }

#[kani::proof]
#[kani::stub(str::find, find_char_model)]
#[kani::stub(str::contains, contains_char_model)]
#[kani::unwind(12)]
fn p_parse_313() {
    let mut v = vec![0u8; 7];
    put3(&mut v, 0); put1(&mut v, 3); put3(&mut v, 4);
    let s = unsafe { String::from_utf8_unchecked(v) };
    let r = parse(s);
    assert!(r.len() <= 2);
    std::mem::forget(r);
}
#[kani::proof]
#[kani::stub(str::find, find_char_model)]
#[kani::stub(str::contains, contains_char_model)]
#[kani::unwind(12)]
fn p_parse_13() {
    let mut v = vec![0u8; 4];
    put1(&mut v, 0); put3(&mut v, 1);
    let s = unsafe { String::from_utf8_unchecked(v) };
    let r = parse(s);
    assert!(r.len() <= 1);
    std::mem::forget(r);
}

#[kani::proof]
#[kani::stub(str::find, find_char_model)]
#[kani::stub(str::contains, contains_char_model)]
#[kani::unwind(12)]
fn p_parse_3131() {
    let mut v = vec![0u8; 8];
    put3(&mut v, 0); put1(&mut v, 3); put3(&mut v, 4); put1(&mut v, 7);
    let s = unsafe { String::from_utf8_unchecked(v) };
    let r = parse(s);
    assert!(r.len() <= 2);
    std::mem::forget(r);
}
#[kani::proof]
#[kani::stub(str::find, find_char_model)]
#[kani::stub(str::contains, contains_char_model)]
#[kani::unwind(12)]
fn p_parse_13_area() {
    // the defect: area char before first command must not leak
    let mut v = vec![0u8; 4];
    put1(&mut v, 0); put3(&mut v, 1);
    let s = unsafe { String::from_utf8_unchecked(v) };
    let r = parse(s);
    if r.len() == 1 { assert!(matches!(r[0].get_area(), Area::Nil)); }
    std::mem::forget(r);
}
