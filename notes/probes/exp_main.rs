use hyeong::number::big_number::BigNum;
use hyeong::number::num::Num;
use hyeong::core::{parse, execute, optimize, compile};
use hyeong::core::state::{UnOptState, State};
use hyeong::util::io;

fn run0(code: &str, stdin: &str) -> (String, String) {
    let parsed = parse::parse(code.to_string());
    let mut ipt = io::CustomReader::new(stdin.to_string());
    let mut out = io::CustomWriter::new(|_| Result::Ok(()));
    let mut err = io::CustomWriter::new(|_| Result::Ok(()));
    let mut state = UnOptState::new();
    for c in parsed {
        state = execute::execute(&mut ipt, &mut out, &mut err, state, &c).unwrap();
    }
    (out.to_string().unwrap(), err.to_string().unwrap())
}
fn runl(code: &str, stdin: &str, level: u8) -> (String, String) {
    use std::io::Write;
    let parsed = parse::parse(code.to_string());
    let mut ipt = io::CustomReader::new(stdin.to_string());
    let mut out = io::CustomWriter::new(|_| Result::Ok(()));
    let mut err = io::CustomWriter::new(|_| Result::Ok(()));
    let (mut state, oc) = optimize::optimize(parsed, level).unwrap();
    let s1: Vec<Num> = state.get_stack(1).drain(..).collect();
    for n in s1 { write!(out, "{}", hyeong::util::ext::num_to_unicode(&n).unwrap()).unwrap(); }
    let s2: Vec<Num> = state.get_stack(2).drain(..).collect();
    for n in s2 { write!(err, "{}", hyeong::util::ext::num_to_unicode(&n).unwrap()).unwrap(); }
    for c in oc {
        state = execute::execute(&mut ipt, &mut out, &mut err, state, &c).unwrap();
    }
    (out.to_string().unwrap(), err.to_string().unwrap())
}


fn cmp(code: &str, stdin: &str) {
    let r0 = run0(code, stdin);
    let r1 = runl(code, stdin, 1);
    let r2 = runl(code, stdin, 2);
    println!("{:?} stdin={:?}\n  O0={:?}\n  O1={:?}\n  O2={:?} {}", code, stdin, r0, r1, r2, if r0==r1 && r0==r2 {"same"} else {"DIFF"});
}
fn main() {
    // 흣 with 2 operands of different values, then print them in order
    // push 65, push 66 ; 흐읏 (2 operands, dots 4 -> stack 4) ; now stack3 = [-65,-66]; negate again each and print
    // loop > 100 with printing: 
    // print 'A' repeatedly 150 times using counter
    let args: Vec<String> = std::env::args().collect();
    if args.len() > 3 && args[1] == "--emit" {
        let level: u8 = args[2].parse().unwrap();
        let parsed = parse::parse(args[3].clone());
        let src = if level == 0 { compile::build_source(UnOptState::new(), &parsed, 0) } else {
            let (st, c) = optimize::optimize(parsed, level).unwrap();
            compile::build_source(st, &c, level) };
        println!("{}", src);
        return;
    }
    for a in &args[1..] { cmp(a, "ab\ncd"); }
}
