use super::*;
use crate::core::state::State;
use crate::core::code::OptCode;
use crate::core::area::Area;
use crate::number::num::Num;
use crate::number::big_number::BigNum;

struct NoRead;
impl ReadLine for NoRead {
    fn read_line_(&mut self) -> Result<String, Error> { panic!("stdin read") }
}
struct Sink(pub usize);
impl Write for Sink {
    fn write(&mut self, b: &[u8]) -> std::io::Result<usize> { self.0 += b.len(); Ok(b.len()) }
    fn flush(&mut self) -> std::io::Result<()> { Ok(()) }
}

// light-weight State: real trait defaults push_stack/pop_stack are used
struct LState {
    st: [Vec<Num>; 6],
    code: [OptCode; 1],
    cur: usize,
    latest: Option<usize>,
    pts: [(u128, usize); 2],
    npts: usize,
}
impl State for LState {
    type CodeType = OptCode;
    fn get_all_stack_index(&self) -> Vec<usize> { vec![0,1,2,3,4,5] }
    fn stack_size(&self) -> usize { 6 }
    fn current_stack(&self) -> usize { self.cur }
    fn set_current_stack(&mut self, cur: usize) { self.cur = cur; }
    fn get_stack(&mut self, idx: usize) -> &mut Vec<Num> { &mut self.st[idx] }
    fn get_code(&self, loc: usize) -> &OptCode { &self.code[loc] }
    fn push_code(&mut self, _c: OptCode) -> usize { 0 }
    fn get_all_code(&self) -> Vec<OptCode> { Vec::new() }
    fn set_point(&mut self, id: u128, loc: usize) { self.pts[self.npts] = (id, loc); self.npts += 1; }
    fn get_point(&self, id: u128) -> Option<usize> {
        let mut i = 0; while i < self.npts { if self.pts[i].0 == id { return Some(self.pts[i].1); } i += 1; } None }
    fn get_all_point(&self) -> Vec<(u128, usize)> { Vec::new() }
    fn set_latest_loc(&mut self, loc: usize) { self.latest = Some(loc); }
    fn get_latest_loc(&self) -> Option<usize> { self.latest }
}

// abstract integer arithmetic on 1-limb integers (stubs)
fn ival(n: &Num) -> i64 { let m = n.floor().to_int() as i64; if n.is_pos() { m } else { -m } }
fn model_add(l: &Num, r: &Num) -> Num {
    if l.is_nan() || r.is_nan() { return Num::nan(); }
    Num::from_num((ival(l) + ival(r)) as isize)
}
fn model_mul(l: &Num, r: &Num) -> Num {
    if l.is_nan() || r.is_nan() { return Num::nan(); }
    Num::from_num((ival(l) * ival(r)) as isize)
}

#[kani::proof]
#[kani::stub(Num::add, model_add)]
#[kani::stub(Num::mul, model_mul)]
#[kani::unwind(4)]
fn p_l_add2() {
    let a: i8 = kani::any();
    let b: i8 = kani::any();
    let dc: usize = 4;
    let ty: u8 = 1;
    let mut st = LState { st: [vec![], vec![], vec![], vec![Num::from_num(a as isize), Num::from_num(b as isize)], vec![], vec![]],
        code: [OptCode::new(ty, 2, dc, 2 * dc, Area::Nil)], cur: 3, latest: None, pts: [(0,0),(0,0)], npts: 0 };
    let (mut st, next) = execute_one(&mut NoRead, &mut Sink(0), &mut Sink(0), st, 0).unwrap();
    assert!(next == 1);
    assert!(st.cur == 3);
    let top = st.st[dc].pop().unwrap();
    let exp = if ty == 1 { a as i64 + b as i64 } else { a as i64 * b as i64 };
    assert!(ival(&top) == exp);
    std::mem::forget(st);
}
