#!/bin/bash
# usage: kdrive.sh <symtab-dir> <harness-substr> <unwind> [unwindset] -> runs link+instrument+cbmc
D=$1; H=$2; U=$3; US=$4
S=$(ls $D/*$H.symtab.out | head -1); O=/root/scratch/gb_$H.out
FN=$(basename $S .symtab.out | sed -E 's/^hyeong-[0-9a-f]+_//')
goto-cc $S /root/.kani/kani-0.68.0/library/kani/kani_lib.c -o $O 2>/dev/null
goto-cc $O --function $FN -o $O 2>/dev/null
goto-instrument --add-library --no-malloc-may-fail $O $O >/dev/null 2>&1
goto-instrument --generate-function-body-options assert-false-assume-false --generate-function-body '.*' --drop-unused-functions $O $O >/dev/null 2>&1
goto-instrument --ensure-one-backedge-per-target $O $O >/dev/null 2>&1
if [ "$US" = "loops" ]; then goto-instrument --show-loops $O 2>/dev/null | grep -E "^Loop"; exit; fi
/usr/bin/time -f "wall=%e s rss=%M KB" cbmc --no-malloc-may-fail --no-undefined-shift-check --no-signed-overflow-check --nan-check --no-self-loops-to-assumptions --no-pointer-primitive-check --object-bits 16 --unwind $U ${US:+--unwindset $US} --unwinding-assertions --sat-solver cadical --slice-formula $O 2>&1 | grep -v reachability_check | grep -E "VERIFICATION|Runtime Symex|Runtime Solver: [0-9]*[1-9][0-9]*\.|FAILURE|wall=|size of program"
