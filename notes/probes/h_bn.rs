use super::BigNum;

fn val3(v: &[u32]) -> u128 {
    let mut r: u128 = 0;
    let mut i = v.len();
    while i > 0 { i -= 1; r = (r << 32) | (v[i] as u128); }
    r
}

#[kani::proof]
#[kani::unwind(5)]
fn add_core_2x2() {
    let a: [u32; 2] = kani::any();
    let b: [u32; 2] = kani::any();
    let r = BigNum::add_core(&a, &b);
    assert!(r.len() == 3);
    assert!(val3(&r) == val3(&a) + val3(&b));
}

#[kani::proof]
#[kani::unwind(5)]
fn add_core_1x3() {
    let a: [u32; 1] = kani::any();
    let b: [u32; 3] = kani::any();
    let r = BigNum::add_core(&a, &b);
    assert!(val3(&r) == val3(&a) + val3(&b));
    let r = BigNum::add_core(&b, &a);
    assert!(val3(&r) == val3(&a) + val3(&b));
}

#[kani::proof]
#[kani::unwind(5)]
fn sub_core_2x2() {
    let a: [u32; 2] = kani::any();
    let b: [u32; 2] = kani::any();
    let (r, sw) = BigNum::sub_core(&a, &b);
    let (x, y) = (val3(&a), val3(&b));
    assert!(sw == (x < y));
    assert!(val3(&r) == if x < y { y - x } else { x - y });
}

#[kani::proof]
#[kani::unwind(5)]
fn less_core_2x3() {
    let a: [u32; 2] = kani::any();
    let b: [u32; 3] = kani::any();
    assert!(BigNum::less_core(&a, &b) == (val3(&a) < val3(&b)));
    assert!(BigNum::less_core(&b, &a) == (val3(&b) < val3(&a)));
}

#[kani::proof]
#[kani::unwind(4)]
fn mult_core_1x1() {
    let a: [u32; 1] = kani::any();
    let b: [u32; 1] = kani::any();
    let r = BigNum::mult_core(&a, &b);
    assert!(val3(&r) == (a[0] as u128) * (b[0] as u128));
}

#[kani::proof]
#[kani::unwind(7)]
fn mult_core_2x2() {
    let a: [u32; 2] = kani::any();
    let b: [u32; 2] = kani::any();
    let r = BigNum::mult_core(&a, &b);
    // r has 5 limbs; value fits 128 bits
    assert!(r[4] == 0);
    assert!(val3(&r[..4]) == val3(&a) * val3(&b));
}

fn ref_mul(a: &[u32], b: &[u32]) -> u128 {
    // reference: sum of primitive 32x32->64 partial products, accumulated in u128 (wrapping impossible for <=2x2)
    let mut acc: u128 = 0;
    let mut i = 0;
    while i < a.len() {
        let mut j = 0;
        while j < b.len() {
            let p = (a[i] as u64) * (b[j] as u64);
            acc = acc.wrapping_add((p as u128) << (32 * (i + j)));
            j += 1;
        }
        i += 1;
    }
    acc
}

#[kani::proof]
#[kani::unwind(7)]
fn mult_core_2x2_pp() {
    let a: [u32; 2] = kani::any();
    let b: [u32; 2] = kani::any();
    let r = BigNum::mult_core(&a, &b);
    assert!(r[4] == 0);
    assert!(val3(&r[..4]) == ref_mul(&a, &b));
}

#[kani::proof]
#[kani::unwind(4)]
fn mult_core_1x1_u64() {
    let a: [u32; 1] = kani::any();
    let b: [u32; 1] = kani::any();
    let r = BigNum::mult_core(&a, &b);
    assert!(val3(&r) == ((a[0] as u64) * (b[0] as u64)) as u128);
}

#[kani::proof]
#[kani::unwind(34)]
fn div_core_1x1() {
    let a: [u32; 1] = kani::any();
    let b: [u32; 1] = kani::any();
    kani::assume(b[0] != 0);
    let q = BigNum::div_core(&a, &b);
    assert!(q.len() == 1);
    let p = (q[0] as u64) * (b[0] as u64);
    assert!(p <= a[0] as u64);
    assert!(p + (b[0] as u64) > a[0] as u64);
}

#[kani::proof]
#[kani::unwind(34)]
fn div_core_1x1_c10() {
    let a: [u32; 1] = kani::any();
    let b: [u32; 1] = [10];
    let q = BigNum::div_core(&a, &b);
    assert!(q.len() == 1);
    assert!(q[0] == a[0] / 10);
}

#[kani::proof]
#[kani::unwind(66)]
fn div_core_2x1_c10() {
    let a: [u32; 2] = kani::any();
    let b: [u32; 1] = [10];
    let q = BigNum::div_core(&a, &b);
    assert!(q.len() == 2);
    let av = (a[0] as u64) | ((a[1] as u64) << 32);
    let qv = (q[0] as u64) | ((q[1] as u64) << 32);
    assert!(qv == av / 10);
}
