#!/bin/bash
# Builds what the checks reuse between runs (offline): the Kani-compiled dependency artefacts of
# hyeong and the native replay dependencies.  Everything else is rebuilt from /repo on every run.
set -e
cd "$(dirname "$(readlink -f "$0")")"
export CARGO_NET_OFFLINE=true
mkdir -p .cache evidence replays
python3 engine/mkmanifest.py >/dev/null
# warm both caches through the ordinary code path (a failing replay build here is not fatal)
python3 engine/check.py --warm || true
echo "setup done"
