// Harness module attached as `crate::core::state::verif_st` (child module: can build an OptState
// field by field).  C02 family 3: the bounds-checked overrides OptState::push_stack/pop_stack
// agree with the State trait defaults (the NaN rule) inside the range and are no-ops / NaN
// outside it.
#![allow(dead_code, unused_imports, unused_variables, unused_mut, static_mut_refs)]
use super::*;
use crate::core::execute::verif_ex::{any_v, Dom};
use crate::number::num::verif_num::{num_is, num_of_v};
use crate::vlib::*;
use crate::vspec::*;
use std::mem::MaybeUninit;

fn rs_model() -> std::collections::hash_map::RandomState {
    // fixed keys: HashMap::new() otherwise asks the OS for randomness (FFI)
    unsafe { std::mem::transmute((0u64, 0u64)) }
}

fn optstate_ops(idx: usize, depth: usize) {
    const SIZE: usize = 5;
    let a = any_v(Dom::I8, false);
    let b = any_v(Dom::I8, true);
    let x = any_v(Dom::I8, true);
    // Both the table of stacks and the stacks' buffers are LOCAL arrays handed to
    // Vec::from_raw_parts (never freed: everything is forgotten at the end).  The symbolic
    // executor keeps lengths/capacities of statically known objects constant, which it does not
    // for heap allocations (measured: OOM within a minute with heap-backed stacks).
    let mut bufs: [[MaybeUninit<Num>; 4]; SIZE] = unsafe { MaybeUninit::uninit().assume_init() };
    let mut table: [MaybeUninit<Vec<Num>>; SIZE] = unsafe { MaybeUninit::uninit().assume_init() };
    let mut i = 0;
    while i < SIZE {
        table[i] = MaybeUninit::new(unsafe { Vec::from_raw_parts(bufs[i].as_mut_ptr() as *mut Num, 0, 4) });
        i += 1;
    }
    let stack = unsafe { Vec::from_raw_parts(table.as_mut_ptr() as *mut Vec<Num>, SIZE, SIZE) };
    let mut st = OptState { stack, code: Vec::new(), point: HashMap::new(), cur: 3, latest: None };
    // definition on a plain array
    let mut m = [NAN; 4];
    let mut ml = 0usize;
    if idx < SIZE {
        if depth >= 1 {
            st.stack[idx].push(num_of_v(a));
            m[0] = a;
            ml = 1;
        }
        if depth >= 2 {
            st.stack[idx].push(num_of_v(b));
            m[1] = b;
            ml = 2;
        }
    }
    st.push_stack(idx, num_of_v(x));
    if idx < SIZE && !(ml == 0 && x.is_nan()) {
        m[ml] = x;
        ml += 1;
    }
    if idx < SIZE {
        assert!(st.stack[idx].len() == ml, "push_stack: wrong stack depth (NaN rule / range check)");
    }
    // pop everything and one more
    let mut k = 0;
    while k < 4 {
        let got = st.pop_stack(idx);
        let want = if idx < SIZE && ml > 0 {
            ml -= 1;
            m[ml]
        } else {
            NAN
        };
        assert!(num_is(&got, want), "pop_stack differs from the definition");
        std::mem::forget(got);
        k += 1;
    }
    assert!(st.stack_size() == SIZE && st.current_stack() == 3);
    std::mem::forget(st);
}
macro_rules! optstate {
    ($name:ident, $idx:expr, $depth:expr) => {
        #[cfg_attr(kani, kani::proof)]
        #[cfg_attr(kani, kani::stub(std::collections::hash_map::RandomState::new, rs_model))]
        pub fn $name() {
            optstate_ops($idx, $depth);
            vcover!();
        }
    };
}
// @h prop=C02 unwind=8 timeout=2400 mem=12 tier=thorough kind=stretch stubs=RandomState::new->fixed_keys what=OptState::push_stack/pop_stack_on_stack_3,pre-depth_1(local-array-backed_buffers)
optstate!(ost_i3_d1, 3, 1);
