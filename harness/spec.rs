// Independent executable definition of one interpreter step (attached as `crate::vspec`).
// Written against plain arrays and machine integers; uses no repository type and no
// repository function.  Source: the language definition (six commands, area rules, I/O stacks
// 0/1/2, NaN rules) as summarised in properties C01/C07/C14.
#![allow(dead_code, unused_variables, unused_mut)]

/// abstract number: n/d in lowest terms, d > 0; d == 0 is NaN (n is then irrelevant)
#[derive(Clone, Copy, PartialEq, Debug)]
pub struct V {
    pub n: i32,
    pub d: i32,
}
pub const NAN: V = V { n: 1, d: 0 };
pub fn vi(n: i32) -> V {
    V { n, d: 1 }
}
impl V {
    pub fn is_nan(&self) -> bool {
        self.d == 0
    }
}
// (wrapping arithmetic: inside the harness domains nothing wraps; it only keeps the definition
// total on the out-of-domain values the symbolic executor considers on paths it later discards)
fn gcd_small(mut a: i32, mut b: i32) -> i32 {
    if a < 0 {
        a = a.wrapping_neg();
    }
    if b < 0 {
        b = b.wrapping_neg();
    }
    while b != 0 {
        let t = a.wrapping_rem(b);
        a = b;
        b = t;
    }
    a
}
fn reduce(n: i32, d: i32) -> V {
    // d > 0
    if d == 1 {
        return V { n, d };
    }
    let g = gcd_small(n, d);
    if g == 0 {
        return V { n, d };
    }
    V { n: n.wrapping_div(g), d: d.wrapping_div(g) }
}
pub fn v_add(a: V, b: V) -> V {
    if a.is_nan() || b.is_nan() {
        return NAN;
    }
    if a.d == 1 && b.d == 1 {
        return vi(a.n.wrapping_add(b.n));
    }
    reduce(a.n.wrapping_mul(b.d).wrapping_add(b.n.wrapping_mul(a.d)), a.d.wrapping_mul(b.d))
}
pub fn v_mul(a: V, b: V) -> V {
    if a.is_nan() || b.is_nan() {
        return NAN;
    }
    if a.d == 1 && b.d == 1 {
        return vi(a.n.wrapping_mul(b.n));
    }
    reduce(a.n.wrapping_mul(b.n), a.d.wrapping_mul(b.d))
}
pub fn v_neg(a: V) -> V {
    if a.is_nan() {
        return NAN;
    }
    V { n: a.n.wrapping_neg(), d: a.d }
}
pub fn v_flip(a: V) -> V {
    if a.is_nan() || a.n == 0 {
        return NAN;
    }
    if a.n < 0 {
        V { n: a.d.wrapping_neg(), d: a.n.wrapping_neg() }
    } else {
        V { n: a.d, d: a.n }
    }
}
/// -1 less, 0 equal, 1 greater, 2 unordered
pub fn v_cmp_int(a: V, k: i32) -> i8 {
    if a.is_nan() {
        return 2;
    }
    let l = a.n; // a.n / a.d  vs  k   <=>  a.n vs k * a.d   (a.d > 0)
    let r = k.wrapping_mul(a.d);
    if l < r {
        -1
    } else if l == r {
        0
    } else {
        1
    }
}
/// floor of a non-negative value
pub fn v_floor_nonneg(a: V) -> i32 {
    if a.d == 1 {
        a.n
    } else {
        a.n / a.d
    }
}

pub const NSTK: usize = 6;
// (natively - replay and the self-test on the repository's own test programs - the stacks and
// output buffers are larger; under Kani they are as small as the grid needs)
#[cfg(kani)]
pub const DEPTH: usize = 8;
#[cfg(not(kani))]
pub const DEPTH: usize = 64;
#[cfg(kani)]
pub const OBUF: usize = 24;
#[cfg(not(kani))]
pub const OBUF: usize = 256;
pub const NPTS: usize = 3;

/// area tree in prefix array form: node i = (type, left, right); type 0 '?', 1 '!', 2..=12 hearts,
/// 13 white heart; index usize::MAX = Nil
#[derive(Clone, Copy)]
pub struct SArea {
    pub nodes: [(u8, usize, usize); 7],
    pub root: usize,
}
pub const NIL: usize = usize::MAX;

#[derive(Clone, Copy)]
pub struct SCode {
    pub kind: u8,
    pub h: usize,
    pub d: usize,
    pub area: SArea,
    /// area count (h*d for source programs)
    pub ac: usize,
}

#[derive(Clone, Copy)]
pub struct SState {
    pub st: [[V; DEPTH]; NSTK],
    pub len: [usize; NSTK],
    pub cur: usize,
    pub out: [u8; OBUF],
    pub olen: usize,
    pub err: [u8; OBUF],
    pub elen: usize,
    pub pts: [(u128, usize); NPTS],
    pub npts: usize,
    pub latest: Option<usize>,
    /// the one pending input line (code points), None = end of input
    pub line: [u32; 4],
    pub line_len: usize,
    pub line_avail: bool,
    pub reads: usize,
}

#[derive(Clone, Copy, PartialEq, Debug)]
pub enum End {
    Next(usize),
    Exit(i32),
    EncodingError,
}

impl SState {
    pub fn push_raw(&mut self, idx: usize, v: V) {
        // NaN never becomes the bottom element of a stack
        if self.len[idx] == 0 && v.is_nan() {
            return;
        }
        self.st[idx][self.len[idx]] = v;
        self.len[idx] += 1;
    }
    pub fn pop_raw(&mut self, idx: usize) -> V {
        if self.len[idx] == 0 {
            NAN
        } else {
            self.len[idx] -= 1;
            self.st[idx][self.len[idx]]
        }
    }
    fn emit(&mut self, to_err: bool, b: u8) {
        if to_err {
            self.err[self.elen] = b;
            self.elen += 1;
        } else {
            self.out[self.olen] = b;
            self.olen += 1;
        }
    }
    fn emit_scalar(&mut self, to_err: bool, c: u32) {
        if c < 0x80 {
            self.emit(to_err, c as u8);
        } else if c < 0x800 {
            self.emit(to_err, 0xC0 | (c >> 6) as u8);
            self.emit(to_err, 0x80 | (c & 0x3F) as u8);
        } else if c < 0x10000 {
            self.emit(to_err, 0xE0 | (c >> 12) as u8);
            self.emit(to_err, 0x80 | ((c >> 6) & 0x3F) as u8);
            self.emit(to_err, 0x80 | (c & 0x3F) as u8);
        } else {
            self.emit(to_err, 0xF0 | (c >> 18) as u8);
            self.emit(to_err, 0x80 | ((c >> 12) & 0x3F) as u8);
            self.emit(to_err, 0x80 | ((c >> 6) & 0x3F) as u8);
            self.emit(to_err, 0x80 | (c & 0x3F) as u8);
        }
    }
    fn emit_uint(&mut self, to_err: bool, mut n: u32) {
        // decimal, no leading zeros (n < 1000 in the harness domain)
        if n >= 100 {
            self.emit(to_err, b'0' + (n / 100) as u8);
            n %= 100;
            self.emit(to_err, b'0' + (n / 10) as u8);
            self.emit(to_err, b'0' + (n % 10) as u8);
        } else if n >= 10 {
            self.emit(to_err, b'0' + (n / 10) as u8);
            self.emit(to_err, b'0' + (n % 10) as u8);
        } else {
            self.emit(to_err, b'0' + n as u8);
        }
    }
    /// push with the I/O rules; false = output-encoding error
    pub fn push(&mut self, idx: usize, v: V) -> bool {
        if idx == 1 || idx == 2 {
            let e = idx == 2;
            if v.is_nan() {
                // text of NaN
                const T: [u8; 16] = [0xEB, 0x84, 0x88, 0xEB, 0xAC, 0xB4, 0x20, 0xEC, 0xBB, 0xA4, 0xEC, 0x97, 0x87, 0x2E, 0x2E, 0x2E];
                let mut i = 0;
                while i < 16 {
                    self.emit(e, T[i]);
                    i += 1;
                }
            } else if v.n >= 0 {
                let c = v_floor_nonneg(v) as u32;
                if (c >= 0xD800 && c < 0xE000) || c >= 0x110000 {
                    return false;
                }
                self.emit_scalar(e, c);
            } else {
                // the negated number as text
                self.emit_uint(e, (-v.n) as u32);
                if v.d != 1 {
                    self.emit(e, b'/');
                    self.emit_uint(e, v.d as u32);
                }
            }
            true
        } else {
            self.push_raw(idx, v);
            true
        }
    }
    /// pop with the I/O rules; Err(code) = the program asked to exit
    pub fn pop(&mut self, idx: usize) -> Result<V, i32> {
        if idx == 1 {
            return Err(0);
        }
        if idx == 2 {
            return Err(1);
        }
        if idx == 0 && self.len[0] == 0 {
            self.reads += 1;
            if self.line_avail {
                self.line_avail = false;
                // characters of the line are pushed in reverse so that they pop in order
                let mut i = self.line_len;
                while i > 0 {
                    i -= 1;
                    self.push_raw(0, vi(self.line[i] as i32));
                }
            }
        }
        Ok(self.pop_raw(idx))
    }
    pub fn get_point(&self, id: u128) -> Option<usize> {
        let mut i = 0;
        while i < self.npts {
            if self.pts[i].0 == id {
                return Some(self.pts[i].1);
            }
            i += 1;
        }
        None
    }
}

macro_rules! tryx {
    ($e:expr) => {
        match $e {
            Ok(v) => v,
            Err(c) => return End::Exit(c),
        }
    };
}
macro_rules! tryp {
    ($e:expr) => {
        if !$e {
            return End::EncodingError;
        }
    };
}

/// one command at location `loc`
pub fn spec_step(s: &mut SState, c: &SCode, loc: usize) -> End {
    let cur = s.cur;
    match c.kind {
        0 => {
            tryp!(s.push(cur, vi((c.h * c.d) as i32)));
        }
        1 => {
            let mut n = vi(0);
            let mut i = 0;
            while i < c.h {
                n = v_add(n, tryx!(s.pop(cur)));
                i += 1;
            }
            tryp!(s.push(c.d, n));
        }
        2 => {
            let mut n = vi(1);
            let mut i = 0;
            while i < c.h {
                n = v_mul(n, tryx!(s.pop(cur)));
                i += 1;
            }
            tryp!(s.push(c.d, n));
        }
        3 | 4 => {
            let mut tmp = [NAN; DEPTH];
            let mut i = 0;
            while i < c.h {
                tmp[i] = tryx!(s.pop(cur));
                i += 1;
            }
            // restore in original order: the value popped last goes back first
            let mut n = if c.kind == 3 { vi(0) } else { vi(1) };
            let mut i = c.h;
            while i > 0 {
                i -= 1;
                let x = if c.kind == 3 { v_neg(tmp[i]) } else { v_flip(tmp[i]) };
                n = if c.kind == 3 { v_add(n, x) } else { v_mul(n, x) };
                tryp!(s.push(cur, x));
            }
            tryp!(s.push(c.d, n));
        }
        _ => {
            let n = tryx!(s.pop(cur));
            let mut i = 0;
            while i < c.h {
                tryp!(s.push(c.d, n));
                i += 1;
            }
            tryp!(s.push(cur, n));
            s.cur = c.d;
        }
    }
    // area
    let cur = s.cur;
    let mut node = c.area.root;
    let mut ty: u8 = 0;
    loop {
        if node == NIL {
            ty = 0;
            break;
        }
        let (t, l, r) = c.area.nodes[node];
        if t == 0 {
            let v = tryx!(s.pop(cur));
            node = if v_cmp_int(v, c.ac as i32) == -1 { l } else { r };
        } else if t == 1 {
            let v = tryx!(s.pop(cur));
            node = if v_cmp_int(v, c.ac as i32) == 0 { l } else { r };
        } else {
            ty = t;
            break;
        }
    }
    if ty != 0 {
        if ty != 13 {
            let id = ((c.ac as u128) << 4) + ty as u128;
            match s.get_point(id) {
                Some(v) => {
                    if v != loc {
                        s.latest = Some(loc);
                        return End::Next(v);
                    }
                }
                None => {
                    s.pts[s.npts] = (id, loc);
                    s.npts += 1;
                }
            }
        } else if let Some(l) = s.latest {
            return End::Next(l);
        }
    }
    End::Next(loc + 1)
}
