// Harness module attached as `crate::core::parse::verif_pa`.
// C04: parse() is total and equals an independent recogniser of the grammar on every string
// of N characters whose UTF-8 byte-length pattern is fixed (characters symbolic inside their
// class).  C08: re-parsing the concatenated `raw` texts returns the same commands.
#![allow(dead_code, unused_imports, unused_variables, unused_mut, static_mut_refs)]
use super::*;
use crate::core::code::Code;
use crate::vlib::*;
#[cfg(kani)]
use std::str::pattern::Pattern;

// ---------------------------------------------------------------------------
// model of str::find / str::contains for P = char (the only instantiation parse() uses).
// std's implementation goes through memchr with word-at-a-time tricks that cost minutes of
// symbolic execution even on concrete haystacks; the model is a plain scan over the UTF-8 text.
// Validated natively against std (harness `find_model_valid`, kind=model).
// ---------------------------------------------------------------------------
#[cfg(kani)]
pub(crate) fn find_char_model<P: Pattern>(hay: &str, pat: P) -> Option<usize> {
    assert!(std::mem::size_of::<P>() == 4, "model: pattern is not a char");
    let c: u32 = unsafe { std::mem::transmute_copy(&pat) };
    std::mem::forget(pat);
    let b = hay.as_bytes();
    let mut i = 0;
    while i < b.len() {
        let b0 = b[i] as u32;
        let (cp, l) = if b0 < 0x80 {
            (b0, 1)
        } else if b0 < 0xE0 {
            (((b0 & 0x1F) << 6) | (b[i + 1] as u32 & 0x3F), 2)
        } else if b0 < 0xF0 {
            (((b0 & 0x0F) << 12) | ((b[i + 1] as u32 & 0x3F) << 6) | (b[i + 2] as u32 & 0x3F), 3)
        } else {
            (((b0 & 0x07) << 18) | ((b[i + 1] as u32 & 0x3F) << 12) | ((b[i + 2] as u32 & 0x3F) << 6) | (b[i + 3] as u32 & 0x3F), 4)
        };
        if cp == c {
            return Some(i);
        }
        i += l;
    }
    None
}
#[cfg(kani)]
pub(crate) fn contains_char_model<P: Pattern>(hay: &str, pat: P) -> bool {
    find_char_model(hay, pat).is_some()
}

// ---------------------------------------------------------------------------
// independent recogniser (no repository code): works on code points
// ---------------------------------------------------------------------------
const MAXC: usize = 4; // characters per text
#[derive(Clone, Copy, PartialEq)]
pub(crate) struct STree {
    // node = (type, left, right); NILT = no node
    pub nodes: [(u8, usize, usize); 8],
    pub n: usize,
    pub root: usize,
}
const NILT: usize = usize::MAX;
#[derive(Clone, Copy)]
pub(crate) struct SCmd {
    pub kind: u8,
    pub h: usize,
    pub d: usize,
    pub line: usize,
    pub col: usize,
    pub raw: [u32; MAXC],
    pub nraw: usize,
    pub tree: STree,
}
const CMD1: [u32; 6] = ['형' as u32, '항' as u32, '핫' as u32, '흣' as u32, '흡' as u32, '흑' as u32];
const START: [u32; 3] = ['혀' as u32, '하' as u32, '흐' as u32];
// end syllables by class: 엉 | 앙 앗 | 읏 읍 윽
const ENDS: [u32; 6] = ['엉' as u32, '앙' as u32, '앗' as u32, '읏' as u32, '읍' as u32, '윽' as u32];
const HEARTS_CP: [u32; 12] = [
    0x2665, 0x2764, 0x1F495, 0x1F496, 0x1F497, 0x1F498, 0x1F499, 0x1F49A, 0x1F49B, 0x1F49C, 0x1F49D, 0x2661,
];
fn end_class(c: u32) -> Option<(usize, u8)> {
    // (class of the start syllable it closes, command kind)
    if c == ENDS[0] {
        Some((0, 0))
    } else if c == ENDS[1] {
        Some((1, 1))
    } else if c == ENDS[2] {
        Some((1, 2))
    } else if c == ENDS[3] {
        Some((2, 3))
    } else if c == ENDS[4] {
        Some((2, 4))
    } else if c == ENDS[5] {
        Some((2, 5))
    } else {
        None
    }
}
fn is_ws(c: u32) -> bool {
    // char::is_whitespace on the alphabet used here (ASCII space/newline/tab/CR are the members)
    c == 0x20 || (c >= 0x09 && c <= 0x0D) || c == 0x85 || c == 0xA0 || c == 0x1680 || (c >= 0x2000 && c <= 0x200A) || c == 0x2028 || c == 0x2029 || c == 0x202F || c == 0x205F || c == 0x3000
}
fn is_hangul(c: u32) -> bool {
    c >= 0xAC00 && c <= 0xD7A3
}
fn heart_type(c: u32) -> Option<u8> {
    let mut i = 0;
    while i < 12 {
        if HEARTS_CP[i] == c {
            return Some(i as u8 + 2);
        }
        i += 1;
    }
    None
}

/// area tokens of one command -> tree.  `?` binds loosest, `!` next, both nest to the right,
/// only the first heart of a slot counts.
fn build_tree(tok: &[u32; MAXC], ntok: usize) -> STree {
    let mut t = STree { nodes: [(0, NILT, NILT); 8], n: 0, root: NILT };
    // recursive descent without recursion (<= MAXC tokens): parse from the right
    // q-level: segment boundaries at '?'
    let mut right_q = NILT; // tree of everything to the right of the current '?'
    let mut have_q = false;
    let mut end = ntok;
    loop {
        // find the last '?' before `end`
        let mut k = end;
        let mut found = false;
        while k > 0 {
            k -= 1;
            if tok[k] == '?' as u32 {
                found = true;
                break;
            }
        }
        let seg_start = if found { k + 1 } else { 0 };
        // e-level on tok[seg_start..end]
        let mut right_e = NILT;
        let mut have_e = false;
        let mut e_end = end;
        loop {
            let mut j = e_end;
            let mut f2 = false;
            while j > seg_start {
                j -= 1;
                if tok[j] == '!' as u32 {
                    f2 = true;
                    break;
                }
            }
            let slot_start = if f2 { j + 1 } else { seg_start };
            // slot: first heart
            let mut leaf = NILT;
            let mut m = slot_start;
            while m < e_end {
                if let Some(ht) = heart_type(tok[m]) {
                    t.nodes[t.n] = (ht, NILT, NILT);
                    leaf = t.n;
                    t.n += 1;
                    break;
                }
                m += 1;
            }
            let sub = if have_e {
                t.nodes[t.n] = (1, leaf, right_e);
                t.n += 1;
                t.n - 1
            } else {
                leaf
            };
            right_e = sub;
            have_e = true;
            if !f2 {
                break;
            }
            e_end = j;
        }
        let sub = if have_q {
            t.nodes[t.n] = (0, right_e, right_q);
            t.n += 1;
            t.n - 1
        } else {
            right_e
        };
        right_q = sub;
        have_q = true;
        if !found {
            break;
        }
        end = k;
    }
    t.root = right_q;
    t
}

pub(crate) struct SParse {
    pub cmds: [SCmd; MAXC],
    pub n: usize,
}

pub(crate) fn spec_parse(text: &[u32; MAXC], len: usize) -> SParse {
    let empty = SCmd { kind: 0, h: 0, d: 0, line: 0, col: 0, raw: [0; MAXC], nraw: 0, tree: STree { nodes: [(0, NILT, NILT); 8], n: 0, root: NILT } };
    let mut out = SParse { cmds: [empty; MAXC], n: 0 };
    // last position of an end syllable of each class
    let mut last_end = [0usize; 3];
    let mut has_end = [false; 3];
    let mut i = 0;
    while i < len {
        if let Some((cl, _)) = end_class(text[i]) {
            last_end[cl] = i;
            has_end[cl] = true;
        }
        i += 1;
    }
    let mut line = 1usize;
    let mut line_start = 0usize;
    let mut i = 0;
    let mut have = false; // a command is pending
    let mut cur = empty;
    let mut tok = [0u32; MAXC];
    let mut ntok = 0usize;
    let mut in_area = false;
    while i < len {
        let c = text[i];
        if is_ws(c) {
            if c == 0x0A {
                line += 1;
                line_start = i + 1;
            }
            i += 1;
            continue;
        }
        // does a command start here?
        let mut one = 6usize;
        let mut k = 0;
        while k < 6 {
            if CMD1[k] == c {
                one = k;
            }
            k += 1;
        }
        let mut st = 3usize;
        let mut k = 0;
        while k < 3 {
            if START[k] == c && has_end[k] && last_end[k] > i {
                st = k;
            }
            k += 1;
        }
        if one < 6 || st < 3 {
            if have {
                cur.tree = build_tree(&tok, ntok);
                out.cmds[out.n] = cur;
                out.n += 1;
            }
            cur = empty;
            cur.line = line;
            cur.col = i - line_start;
            cur.raw[0] = c;
            cur.nraw = 1;
            cur.h = 1;
            ntok = 0;
            in_area = false;
            have = true;
            if one < 6 {
                cur.kind = one as u8;
                i += 1;
            } else {
                // syllables up to the first end syllable of the class; only Hangul syllables count
                i += 1;
                loop {
                    // (an end syllable is guaranteed to follow)
                    let c2 = text[i];
                    if is_hangul(c2) {
                        cur.h += 1;
                        cur.raw[cur.nraw] = c2;
                        cur.nraw += 1;
                    } else if c2 == 0x0A {
                        line += 1;
                        line_start = i + 1;
                    }
                    i += 1;
                    if let Some((cl, kind)) = end_class(c2) {
                        if cl == st {
                            cur.kind = kind;
                            break;
                        }
                    }
                }
            }
            continue;
        }
        if have {
            if c == '.' as u32 || c == 0x2026 || c == 0x22EF || c == 0x22EE {
                if !in_area {
                    cur.d += if c == '.' as u32 { 1 } else { 3 };
                    cur.raw[cur.nraw] = c;
                    cur.nraw += 1;
                }
            } else if c == '?' as u32 || c == '!' as u32 || heart_type(c).is_some() {
                in_area = true;
                tok[ntok] = c;
                ntok += 1;
                cur.raw[cur.nraw] = c;
                cur.nraw += 1;
            }
        }
        i += 1;
    }
    if have {
        cur.tree = build_tree(&tok, ntok);
        out.cmds[out.n] = cur;
        out.n += 1;
    }
    out
}

fn tree_is(a: &Area, t: &STree, node: usize, fuel: usize) -> bool {
    match a {
        Area::Nil => node == NILT,
        Area::Val { type_, left, right } => {
            if node == NILT || fuel == 0 {
                return false;
            }
            let (ty, l, r) = t.nodes[node];
            if ty != *type_ {
                return false;
            }
            if ty <= 1 {
                tree_is(left, t, l, fuel - 1) && tree_is(right, t, r, fuel - 1)
            } else {
                // a heart is a leaf: both children Nil
                matches!(**left, Area::Nil) && matches!(**right, Area::Nil)
            }
        }
    }
}

// ---------------------------------------------------------------------------
// symbolic texts: byte-length pattern fixed, characters symbolic inside their class
// ---------------------------------------------------------------------------
const C1: [u32; 6] = ['.' as u32, '?' as u32, '!' as u32, ' ' as u32, '\n' as u32, 'a' as u32];
const C3: [u32; 22] = [
    '형' as u32, '항' as u32, '핫' as u32, '흣' as u32, '흡' as u32, '흑' as u32, '혀' as u32, '하' as u32, '흐' as u32, '엉' as u32, '앙' as u32,
    '앗' as u32, '읏' as u32, '읍' as u32, '윽' as u32, '가' as u32, 0x2026, 0x22EF, 0x22EE, 0x2665, 0x2764, 0x2661,
];
const C4: [u32; 10] = [0x1F495, 0x1F496, 0x1F497, 0x1F498, 0x1F499, 0x1F49A, 0x1F49B, 0x1F49C, 0x1F49D, 0x1D11E];

fn any_char(class: u8, bytes: &mut Vec<u8>) -> u32 {
    let k = any_u8() as usize;
    match class {
        1 => {
            assume(k < C1.len());
            let c = C1[k];
            bytes.push(c as u8);
            c
        }
        3 => {
            assume(k < C3.len());
            let c = C3[k];
            bytes.push(0xE0 | (c >> 12) as u8);
            bytes.push(0x80 | ((c >> 6) & 0x3F) as u8);
            bytes.push(0x80 | (c & 0x3F) as u8);
            c
        }
        _ => {
            assume(k < C4.len());
            let c = C4[k];
            bytes.push(0xF0 | (c >> 18) as u8);
            bytes.push(0x80 | ((c >> 12) & 0x3F) as u8);
            bytes.push(0x80 | ((c >> 6) & 0x3F) as u8);
            bytes.push(0x80 | (c & 0x3F) as u8);
            c
        }
    }
}

fn parse_check(classes: &[u8], also_reparse: bool) {
    let n = classes.len();
    let mut bytes: Vec<u8> = Vec::with_capacity(16);
    let mut text = [0u32; MAXC];
    let mut i = 0;
    while i < n {
        text[i] = any_char(classes[i], &mut bytes);
        i += 1;
    }
    let want = spec_parse(&text, n);
    let s = unsafe { String::from_utf8_unchecked(bytes) };
    let mut got = parse(s);
    assert!(got.len() == want.n, "number of commands differs from the grammar");
    // compared from the back with pop(): indexing a Vec whose length is symbolic goes through a
    // slice reference, which the symbolic executor cannot justify
    let mut k = MAXC;
    while k > 0 {
        k -= 1;
        if k < want.n {
            match got.pop() {
                Some(g) => {
                    let w = &want.cmds[k];
                    assert!(g.get_type() == w.kind, "command kind differs");
                    assert!(g.get_hangul_count() == w.h, "syllable count differs");
                    assert!(g.get_dot_count() == w.d, "dot count differs");
                    assert!(g.get_location() == (w.line, w.col), "line/column differs");
                    assert!(tree_is(g.get_area(), &w.tree, w.tree.root, 6), "area tree differs from the grammar");
                    std::mem::forget(g);
                }
                None => assert!(false, "missing command"),
            }
        }
    }
    std::mem::forget(got);
}

macro_rules! parse_any {
    ($name:ident, $cl:expr) => {
        #[cfg_attr(kani, kani::proof)]
        #[cfg_attr(kani, kani::stub(str::find, find_char_model))]
        #[cfg_attr(kani, kani::stub(str::contains, contains_char_model))]
        pub fn $name() {
            parse_check(&$cl, false);
            vcover!();
        }
    };
}
// @h prop=C04 unwind=8 rec=4 timeout=900 mem=12 stubs=str::find,str::contains(char)->scan_model what=every_text_of_1_character:3-byte_class
parse_any!(p_3, [3u8]);
// @h prop=C04 unwind=8 rec=4 timeout=900 mem=12 stubs=str::find,str::contains(char)->scan_model what=every_text_of_2_characters:1-byte,3-byte(e.g._?형)
parse_any!(p_13, [1u8, 3]);
// @h prop=C04 unwind=8 rec=4 timeout=900 mem=12 stubs=str::find,str::contains(char)->scan_model what=2_characters:3-byte,1-byte
parse_any!(p_31, [3u8, 1]);
// @h prop=C04 unwind=8 rec=4 timeout=900 mem=12 stubs=str::find,str::contains(char)->scan_model what=2_characters:3-byte,3-byte
parse_any!(p_33, [3u8, 3]);
