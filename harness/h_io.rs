// Harness module attached as `crate::util::io::verif_io`: CustomWriter delivers every byte
// exactly once per flush (C12: "each character shown exactly once").
#![allow(dead_code, unused_imports, unused_variables, unused_mut, static_mut_refs)]
use super::*;
use crate::vlib::*;

static mut GOT: ([u8; 8], usize, usize) = ([0; 8], 0, 0);
fn sink(s: String) -> std::io::Result<()> {
    unsafe {
        let b = s.as_bytes();
        let mut i = 0;
        while i < b.len() && GOT.1 < 8 {
            GOT.0[GOT.1] = b[i];
            GOT.1 += 1;
            i += 1;
        }
        GOT.2 += 1;
    }
    Ok(())
}

// @h prop=C12 unwind=8 timeout=2700 mem=12 tier=thorough kind=stretch what=CustomWriter:two_writes(3+2_ASCII_bytes),flush->callback_gets_exactly_those_bytes_once;second_flush_delivers_nothing
#[cfg_attr(kani, kani::proof)]
pub fn writer_once() {
    let a = [any_u8() & 0x7F, any_u8() & 0x7F, any_u8() & 0x7F];
    let b = [any_u8() & 0x7F, any_u8() & 0x7F];
    let mut w = CustomWriter::new(sink);
    assert!(w.write(&a).unwrap() == 3);
    assert!(w.write(&b).unwrap() == 2);
    unsafe {
        assert!(GOT.2 == 0, "callback before flush");
    }
    w.flush().unwrap();
    unsafe {
        assert!(GOT.2 == 1 && GOT.1 == 5);
        assert!(GOT.0[0] == a[0] && GOT.0[1] == a[1] && GOT.0[2] == a[2] && GOT.0[3] == b[0] && GOT.0[4] == b[1]);
    }
    w.flush().unwrap();
    unsafe {
        assert!(GOT.2 == 2 && GOT.1 == 5, "bytes delivered twice");
    }
    vcover!();
    std::mem::forget(w);
}
