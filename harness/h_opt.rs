// Harness module attached as `crate::core::optimize::verif_opt` (child module: sees the private
// `opt_execute`).  C02: speculative execution of one command equals the language definition
// whenever it commits, and leaves NOTHING behind (state, output) when it gives up.
// C10: it never reads input, never terminates the process, and gives up after 100 jumps.
#![allow(dead_code, unused_imports, unused_variables, unused_mut, static_mut_refs)]
use super::*;
use crate::core::area::Area;
use crate::core::execute::verif_ex::*;
use crate::number::big_number::verif_bn::{m_div, m_mul, m_new1};
use crate::number::big_number::BigNum;
use crate::number::num::verif_num::{m_num_add, m_num_mul};
use crate::vlib::*;
use crate::vspec::*;

/// the language definition iterated the way the optimiser's pre-execution is specified:
/// the command is appended at `start`; run until control passes it; more than `budget` jumps or
/// any pop from stacks 0..2 => give up (None)
fn spec_prefix(s: &mut SState, code: &SCode, start: usize) -> Option<()> {
    // pre-loaded commands are fillers (`형.` = push 1 to the selected stack, no area)
    let filler = SCode { kind: 0, h: 1, d: 1, area: SArea { nodes: [(0, NIL, NIL); 7], root: NIL }, ac: 1 };
    let mut loc = start;
    let mut jumps = 0;
    while loc <= start {
        let c = if loc == start { code } else { &filler };
        // giving up before any pop from the I/O stacks: a command that would pop from 0..2
        if would_pop_io(s, c) {
            return None;
        }
        let before_cur = s.cur;
        match spec_step(s, c, loc) {
            End::Next(n) => {
                if n != loc + 1 {
                    jumps += 1;
                    if jumps > 100 {
                        return None;
                    }
                }
                loc = n;
            }
            _ => return None,
        }
    }
    Some(())
}
/// does executing `c` in state `s` pop from stack 0, 1 or 2 (operand pops or area pops)?
fn would_pop_io(s: &SState, c: &SCode) -> bool {
    let pops_operand = c.kind != 0 && !(c.kind <= 4 && c.h == 0);
    if pops_operand && s.cur <= 2 {
        return true;
    }
    let cur_after = if c.kind == 5 { c.d } else { s.cur };
    let area_pops = c.area.root != NIL && c.area.nodes[c.area.root].0 <= 1;
    area_pops && cur_after <= 2
}

/// C02/C10 body: one opt_execute call from the symbolic pre-state of grid point `c`
/// (the command is APPENDED to a program of NCODE filler commands)
pub(crate) fn opt_check(c: &Cfg) {
    let cc = Cfg { loc: NCODE, ..*c };
    let Pre { mut s, mut l, code, mut rd } = mk_pre(&cc);
    // take the command out of the store again: opt_execute appends it itself
    let cmd = std::mem::replace(&mut l.code[NCODE], OptCode::new(0, 1, 1, 1, Area::Nil));
    let pre = s;
    let want = spec_prefix(&mut s, &code, NCODE);
    unsafe {
        EXIT_FORBIDDEN = true;
    }
    rd.forbidden = true;
    let mut out = CapW::new(false);
    let mut err = CapW::new(true);
    let got = opt_execute(&mut rd, &mut out, &mut err, l, &cmd);
    match got {
        Ok((post, true)) => {
            assert!(want.is_some(), "pre-execution committed although the definition requires giving up");
            assert!(same_state(&post, &s), "committed state differs from the language definition");
            assert!(same_output(&out, &s.out, s.olen), "captured standard output differs");
            assert!(same_output(&err, &s.err, s.elen), "captured standard error differs");
            assert!(post.ncode == NCODE + 1);
            std::mem::forget(post);
        }
        Ok((post, false)) => {
            // giving up is always allowed to be conservative, but it must leave nothing behind
            assert!(same_state(&post, &pre), "state not rolled back after giving up");
            assert!(post.ncode == NCODE, "command left in the program after giving up");
            assert!(out.len == 0 && err.len == 0, "output of an abandoned command was kept");
            // ... and it must not give up without a reason the definition knows
            assert!(want.is_none(), "gave up although nothing forces it");
            std::mem::forget(post);
        }
        Err(e) => {
            // an encoding error while capturing output: the unoptimised run stops the same way
            let mut s2 = pre;
            assert!(spec_step(&mut s2, &code, NCODE) == End::EncodingError, "error without an encoding error in the definition");
            std::mem::forget(e);
        }
    }
    assert!(rd.reads == 0, "standard input was read");
    vcover!();
    std::mem::forget((rd, out, err, cmd));
}

macro_rules! ostep {
    ($name:ident, $cfg:expr) => {
        #[cfg_attr(kani, kani::proof)]
        #[cfg_attr(kani, kani::stub(crate::number::num::Num::add, m_num_add))]
        #[cfg_attr(kani, kani::stub(crate::number::num::Num::mul, m_num_mul))]
        #[cfg_attr(kani, kani::stub(crate::number::big_number::BigNum::mul, m_mul))]
        #[cfg_attr(kani, kani::stub(crate::number::big_number::BigNum::div, m_div))]
        #[cfg_attr(kani, kani::stub(crate::number::big_number::BigNum::new, m_new1))]
        #[cfg_attr(kani, kani::stub(crate::number::big_number::BigNum::to_string_base, m_to_string_digit))]
        #[cfg_attr(kani, kani::stub(std::process::exit, exit_model))]
        #[cfg_attr(kani, kani::stub(std::fmt::format, fmt_model))]
        pub fn $name() {
            let c: Cfg = $cfg;
            opt_check(&c);
        }
    };
}

// ---- grid ----
// @h prop=C02 unwind=10 rec=2 cutfmt=1 uw=same_output.0:25;exit_model.0:25;exit.0:25;push.0:17;write.0:17 timeout=600 mem=12 what=형_commits
ostep!(o_push, Cfg { kind: 0, h: 2, d: 3, depth: [0, 0, 0, 1, 0, 0], ..CFG0 });
// @h prop=C02 unwind=10 rec=2 cutfmt=1 uw=same_output.0:25;exit_model.0:25;exit.0:25;push.0:17;write.0:17 timeout=600 mem=12 what=항_2_operands
ostep!(o_add2, Cfg { kind: 1, h: 2, d: 4, depth: [0, 0, 0, 3, 1, 0], ..CFG0 });
// @h prop=C02 unwind=10 rec=2 cutfmt=1 uw=same_output.0:25;exit_model.0:25;exit.0:25;push.0:17;write.0:17 timeout=600 mem=12 what=핫_2_operands
ostep!(o_mul2, Cfg { kind: 2, h: 2, d: 5, depth: [0, 0, 0, 2, 0, 1], ..CFG0 });
// @h prop=C02 unwind=10 rec=2 cutfmt=1 uw=same_output.0:25;exit_model.0:25;exit.0:25;push.0:17;write.0:17 timeout=600 mem=12 what=흣_1_operand
ostep!(o_neg1, Cfg { kind: 3, h: 1, d: 4, depth: [0, 0, 0, 2, 0, 0], ..CFG0 });
// @h prop=C02 unwind=10 rec=2 cutfmt=1 uw=same_output.0:25;exit_model.0:25;exit.0:25;push.0:17;write.0:17 timeout=600 mem=12 what=흣_2_operands:restored_in_original_order
ostep!(o_neg2, Cfg { kind: 3, h: 2, d: 4, depth: [0, 0, 0, 2, 0, 0], ..CFG0 });
// @h prop=C02 unwind=10 rec=2 cutfmt=1 uw=same_output.0:25;exit_model.0:25;exit.0:25;push.0:17;write.0:17 timeout=900 tier=thorough kind=stretch what=흣_3_operands
ostep!(o_neg3, Cfg { kind: 3, h: 3, d: 4, depth: [0, 0, 0, 3, 0, 0], ..CFG0 });
// @h prop=C02 unwind=10 rec=2 cutfmt=1 uw=same_output.0:25;exit_model.0:25;exit.0:25;push.0:17;write.0:17 timeout=900 what=흡_2_operands:restored_in_original_order
ostep!(o_inv2, Cfg { kind: 4, h: 2, d: 4, dom: Dom::Frac, depth: [0, 0, 0, 2, 0, 0], ..CFG0 });
// @h prop=C02 unwind=10 rec=2 cutfmt=1 uw=same_output.0:25;exit_model.0:25;exit.0:25;push.0:17;write.0:17 timeout=600 mem=12 what=흑_select_4
ostep!(o_dup1, Cfg { kind: 5, h: 1, d: 4, depth: [0, 0, 0, 2, 1, 0], ..CFG0 });
// @h prop=C02 unwind=10 rec=3 cutfmt=1 uw=same_output.0:25;exit_model.0:25;exit.0:25;push.0:17;write.0:17 timeout=900 tier=thorough kind=stretch what=흑_then_?_on_the_new_stack
ostep!(o_dup_area, Cfg { kind: 5, h: 1, d: 4, area: 3, depth: [0, 0, 0, 2, 2, 0], ..CFG0 });
// @h prop=C02 unwind=10 rec=2 cutfmt=1 uw=same_output.0:25;exit_model.0:25;exit.0:25;push.0:17;write.0:17 timeout=600 mem=12 what=label_registration_is_part_of_the_committed_state
ostep!(o_heart_new, Cfg { kind: 0, h: 1, d: 2, area: 1, depth: [0, 0, 0, 1, 0, 0], ..CFG0 });
// @h prop=C02 unwind=10 rec=3 cutfmt=1 uw=same_output.0:25;exit_model.0:25;exit.0:25;push.0:17;write.0:17 timeout=900 what=?_area_pop_on_stack_3
ostep!(o_q, Cfg { kind: 0, h: 1, d: 2, area: 3, depth: [0, 0, 0, 2, 0, 0], ..CFG0 });
// @h prop=C02 unwind=10 rec=2 cutfmt=num uw=same_output.0:25;exit_model.0:25;exit.0:25;push.0:17;write.0:17 timeout=900 what=항_to_stdout:captured_output_equals_definition_or_same_encoding_error
ostep!(o_out_char, Cfg { kind: 1, h: 1, d: 1, dom: Dom::Scalar, depth: [0, 0, 0, 2, 0, 0], ..CFG0 });
// @h prop=C02 unwind=10 rec=2 cutfmt=num uw=same_output.0:25;exit_model.0:25;exit.0:25;push.0:17;write.0:17 timeout=900 what=항_to_stderr:negative/NaN_text_captured
ostep!(o_err_neg, Cfg { kind: 1, h: 1, d: 2, dom: Dom::Digit, depth: [0, 0, 0, 2, 0, 0], ..CFG0 });
// @h prop=C02 unwind=10 rec=3 cutfmt=num uw=same_output.0:25;exit_model.0:25;exit.0:25;push.0:17;write.0:17 timeout=900 what=형?_with_stdout_selected:prints_then_must_give_up->no_output_kept,state_restored
ostep!(o_print_then_bail, Cfg { kind: 0, h: 8, d: 8, cur: 1, area: 3, depth: [0, 0, 0, 1, 0, 0], ..CFG0 });
// @h prop=C02 unwind=10 rec=3 cutfmt=num uw=same_output.0:25;exit_model.0:25;exit.0:25;push.0:17;write.0:17 timeout=900 what=흑_copies_to_stdout,selects_it,area_pop_forces_giving_up
ostep!(o_dup_print_bail, Cfg { kind: 5, h: 2, d: 1, area: 4, dom: Dom::Scalar, depth: [0, 0, 0, 1, 0, 0], ..CFG0 });
// @h prop=C02 unwind=10 rec=3 cutfmt=num uw=same_output.0:25;exit_model.0:25;exit.0:25;push.0:17;write.0:17 timeout=900 what=흣_to_stderr_then_?_on_stack_3:commits_with_output
ostep!(o_neg_out_bail, Cfg { kind: 3, h: 1, d: 2, cur: 3, area: 3, dom: Dom::Digit, depth: [0, 0, 0, 1, 0, 0], ..CFG0 });
// @h prop=C10 unwind=10 rec=2 cutfmt=1 uw=same_output.0:25;exit_model.0:25;exit.0:25;push.0:17;write.0:17 timeout=600 mem=12 what=kind_1_with_stack_0_selected:gives_up,state_untouched,no_read,no_exit,no_output
ostep!(n_k1_c0, Cfg { kind: 1, h: 1, d: 3, cur: 0, depth: [1, 0, 0, 1, 0, 0], ..CFG0 });
// @h prop=C10 unwind=10 rec=2 cutfmt=1 uw=same_output.0:25;exit_model.0:25;exit.0:25;push.0:17;write.0:17 timeout=600 mem=12 what=kind_2_with_stack_0_selected:gives_up,state_untouched,no_read,no_exit,no_output
ostep!(n_k2_c0, Cfg { kind: 2, h: 2, d: 3, cur: 0, depth: [1, 0, 0, 1, 0, 0], ..CFG0 });
// @h prop=C10 unwind=10 rec=2 cutfmt=1 uw=same_output.0:25;exit_model.0:25;exit.0:25;push.0:17;write.0:17 timeout=600 mem=12 what=kind_3_with_stack_0_selected:gives_up,state_untouched,no_read,no_exit,no_output
ostep!(n_k3_c0, Cfg { kind: 3, h: 2, d: 3, cur: 0, depth: [1, 0, 0, 1, 0, 0], ..CFG0 });
// @h prop=C10 unwind=10 rec=2 cutfmt=1 uw=same_output.0:25;exit_model.0:25;exit.0:25;push.0:17;write.0:17 timeout=600 mem=12 what=kind_4_with_stack_0_selected:gives_up,state_untouched,no_read,no_exit,no_output
ostep!(n_k4_c0, Cfg { kind: 4, h: 1, d: 3, cur: 0, depth: [1, 0, 0, 1, 0, 0], ..CFG0 });
// @h prop=C10 unwind=10 rec=2 cutfmt=1 uw=same_output.0:25;exit_model.0:25;exit.0:25;push.0:17;write.0:17 timeout=600 mem=12 what=kind_5_with_stack_0_selected:gives_up,state_untouched,no_read,no_exit,no_output
ostep!(n_k5_c0, Cfg { kind: 5, h: 1, d: 3, cur: 0, depth: [1, 0, 0, 1, 0, 0], ..CFG0 });
// @h prop=C10 unwind=10 rec=3 cutfmt=num uw=same_output.0:25;exit_model.0:25;exit.0:25;push.0:17;write.0:17 timeout=600 mem=12 what=형?_with_stack_0_selected:push_then_area_pop->gives_up
ostep!(n_area_c0, Cfg { kind: 0, h: 1, d: 1, cur: 0, area: 3, depth: [1, 0, 0, 1, 0, 0], ..CFG0 });
// @h prop=C10 unwind=10 rec=3 cutfmt=num uw=same_output.0:25;exit_model.0:25;exit.0:25;push.0:17;write.0:17 timeout=600 mem=12 what=흑_selects_stack_0_then_!_area_pop->gives_up
ostep!(n_dup_to_c0, Cfg { kind: 5, h: 1, d: 0, area: 4, depth: [1, 0, 0, 1, 0, 0], ..CFG0 });
// @h prop=C10 unwind=10 rec=2 cutfmt=1 uw=same_output.0:25;exit_model.0:25;exit.0:25;push.0:17;write.0:17 timeout=600 mem=12 what=kind_1_with_stack_1_selected:gives_up,state_untouched,no_read,no_exit,no_output
ostep!(n_k1_c1, Cfg { kind: 1, h: 1, d: 3, cur: 1, depth: [1, 0, 0, 1, 0, 0], ..CFG0 });
// @h prop=C10 unwind=10 rec=2 cutfmt=1 uw=same_output.0:25;exit_model.0:25;exit.0:25;push.0:17;write.0:17 timeout=600 mem=12 what=kind_2_with_stack_1_selected:gives_up,state_untouched,no_read,no_exit,no_output
ostep!(n_k2_c1, Cfg { kind: 2, h: 2, d: 3, cur: 1, depth: [1, 0, 0, 1, 0, 0], ..CFG0 });
// @h prop=C10 unwind=10 rec=2 cutfmt=1 uw=same_output.0:25;exit_model.0:25;exit.0:25;push.0:17;write.0:17 timeout=600 mem=12 what=kind_3_with_stack_1_selected:gives_up,state_untouched,no_read,no_exit,no_output
ostep!(n_k3_c1, Cfg { kind: 3, h: 2, d: 3, cur: 1, depth: [1, 0, 0, 1, 0, 0], ..CFG0 });
// @h prop=C10 unwind=10 rec=2 cutfmt=1 uw=same_output.0:25;exit_model.0:25;exit.0:25;push.0:17;write.0:17 timeout=600 mem=12 what=kind_4_with_stack_1_selected:gives_up,state_untouched,no_read,no_exit,no_output
ostep!(n_k4_c1, Cfg { kind: 4, h: 1, d: 3, cur: 1, depth: [1, 0, 0, 1, 0, 0], ..CFG0 });
// @h prop=C10 unwind=10 rec=2 cutfmt=1 uw=same_output.0:25;exit_model.0:25;exit.0:25;push.0:17;write.0:17 timeout=600 mem=12 what=kind_5_with_stack_1_selected:gives_up,state_untouched,no_read,no_exit,no_output
ostep!(n_k5_c1, Cfg { kind: 5, h: 1, d: 3, cur: 1, depth: [1, 0, 0, 1, 0, 0], ..CFG0 });
// @h prop=C10 unwind=10 rec=3 cutfmt=num uw=same_output.0:25;exit_model.0:25;exit.0:25;push.0:17;write.0:17 timeout=600 mem=12 what=형?_with_stack_1_selected:push_then_area_pop->gives_up
ostep!(n_area_c1, Cfg { kind: 0, h: 1, d: 1, cur: 1, area: 3, depth: [1, 0, 0, 1, 0, 0], ..CFG0 });
// @h prop=C10 unwind=10 rec=3 cutfmt=num uw=same_output.0:25;exit_model.0:25;exit.0:25;push.0:17;write.0:17 timeout=600 mem=12 what=흑_selects_stack_1_then_!_area_pop->gives_up
ostep!(n_dup_to_c1, Cfg { kind: 5, h: 1, d: 1, area: 4, depth: [1, 0, 0, 1, 0, 0], ..CFG0 });
// @h prop=C10 unwind=10 rec=2 cutfmt=1 uw=same_output.0:25;exit_model.0:25;exit.0:25;push.0:17;write.0:17 timeout=600 mem=12 what=kind_1_with_stack_2_selected:gives_up,state_untouched,no_read,no_exit,no_output
ostep!(n_k1_c2, Cfg { kind: 1, h: 1, d: 3, cur: 2, depth: [1, 0, 0, 1, 0, 0], ..CFG0 });
// @h prop=C10 unwind=10 rec=2 cutfmt=1 uw=same_output.0:25;exit_model.0:25;exit.0:25;push.0:17;write.0:17 timeout=600 mem=12 what=kind_2_with_stack_2_selected:gives_up,state_untouched,no_read,no_exit,no_output
ostep!(n_k2_c2, Cfg { kind: 2, h: 2, d: 3, cur: 2, depth: [1, 0, 0, 1, 0, 0], ..CFG0 });
// @h prop=C10 unwind=10 rec=2 cutfmt=1 uw=same_output.0:25;exit_model.0:25;exit.0:25;push.0:17;write.0:17 timeout=600 mem=12 what=kind_3_with_stack_2_selected:gives_up,state_untouched,no_read,no_exit,no_output
ostep!(n_k3_c2, Cfg { kind: 3, h: 2, d: 3, cur: 2, depth: [1, 0, 0, 1, 0, 0], ..CFG0 });
// @h prop=C10 unwind=10 rec=2 cutfmt=1 uw=same_output.0:25;exit_model.0:25;exit.0:25;push.0:17;write.0:17 timeout=600 mem=12 what=kind_4_with_stack_2_selected:gives_up,state_untouched,no_read,no_exit,no_output
ostep!(n_k4_c2, Cfg { kind: 4, h: 1, d: 3, cur: 2, depth: [1, 0, 0, 1, 0, 0], ..CFG0 });
// @h prop=C10 unwind=10 rec=2 cutfmt=1 uw=same_output.0:25;exit_model.0:25;exit.0:25;push.0:17;write.0:17 timeout=600 mem=12 what=kind_5_with_stack_2_selected:gives_up,state_untouched,no_read,no_exit,no_output
ostep!(n_k5_c2, Cfg { kind: 5, h: 1, d: 3, cur: 2, depth: [1, 0, 0, 1, 0, 0], ..CFG0 });
// @h prop=C10 unwind=10 rec=3 cutfmt=num uw=same_output.0:25;exit_model.0:25;exit.0:25;push.0:17;write.0:17 timeout=600 mem=12 what=형?_with_stack_2_selected:push_then_area_pop->gives_up
ostep!(n_area_c2, Cfg { kind: 0, h: 1, d: 1, cur: 2, area: 3, depth: [1, 0, 0, 1, 0, 0], ..CFG0 });
// @h prop=C10 unwind=10 rec=3 cutfmt=num uw=same_output.0:25;exit_model.0:25;exit.0:25;push.0:17;write.0:17 timeout=600 mem=12 what=흑_selects_stack_2_then_!_area_pop->gives_up
ostep!(n_dup_to_c2, Cfg { kind: 5, h: 1, d: 2, area: 4, depth: [1, 0, 0, 1, 0, 0], ..CFG0 });
// @h prop=C10 unwind=10 rec=2 cutfmt=1 uw=same_output.0:25;exit_model.0:25;exit.0:25;push.0:17;write.0:17 timeout=600 mem=12 what=형_with_stdin_selected_and_no_area:pushes_onto_the_input_buffer,commits,no_read
ostep!(n_push_c0, Cfg { kind: 0, h: 2, d: 2, cur: 0, depth: [1, 0, 0, 0, 0, 0], ..CFG0 });

// vacuity twin (must FAIL)
// @h prop=C02 unwind=10 rec=2 cutfmt=1 uw=same_output.0:25;exit_model.0:25;exit.0:25;push.0:17;write.0:17 timeout=600 mem=12 kind=twin
#[cfg_attr(kani, kani::proof)]
#[cfg_attr(kani, kani::stub(crate::number::num::Num::add, m_num_add))]
#[cfg_attr(kani, kani::stub(crate::number::num::Num::mul, m_num_mul))]
#[cfg_attr(kani, kani::stub(crate::number::big_number::BigNum::mul, m_mul))]
#[cfg_attr(kani, kani::stub(crate::number::big_number::BigNum::div, m_div))]
#[cfg_attr(kani, kani::stub(crate::number::big_number::BigNum::new, m_new1))]
#[cfg_attr(kani, kani::stub(std::process::exit, exit_model))]
#[cfg_attr(kani, kani::stub(std::fmt::format, fmt_model))]
pub fn twin_ostep() {
    let c = Cfg { kind: 1, h: 2, d: 4, depth: [0, 0, 0, 3, 1, 0], ..CFG0 };
    opt_check(&c);
    assert!(false);
}
// @h prop=C10 unwind=10 rec=2 cutfmt=1 uw=same_output.0:25;exit_model.0:25;exit.0:25;push.0:17;write.0:17 timeout=600 mem=12 kind=twin
#[cfg_attr(kani, kani::proof)]
#[cfg_attr(kani, kani::stub(crate::number::num::Num::add, m_num_add))]
#[cfg_attr(kani, kani::stub(crate::number::num::Num::mul, m_num_mul))]
#[cfg_attr(kani, kani::stub(crate::number::big_number::BigNum::mul, m_mul))]
#[cfg_attr(kani, kani::stub(crate::number::big_number::BigNum::div, m_div))]
#[cfg_attr(kani, kani::stub(crate::number::big_number::BigNum::new, m_new1))]
#[cfg_attr(kani, kani::stub(std::process::exit, exit_model))]
#[cfg_attr(kani, kani::stub(std::fmt::format, fmt_model))]
pub fn twin_noeffect() {
    let c = Cfg { kind: 1, h: 1, d: 3, cur: 0, depth: [1, 0, 0, 1, 0, 0], ..CFG0 };
    opt_check(&c);
    assert!(false);
}
