// Harness module attached as `crate::core::optimize::verif_opt` (child module: sees the private
// `opt_execute`).  C02: speculative execution of one command equals the language definition
// whenever it commits, and leaves NOTHING behind (state, output) when it gives up.
// C10: it never reads input, never terminates the process, and gives up after 100 jumps.
#![allow(dead_code, unused_imports, unused_variables, unused_mut, static_mut_refs)]
use super::*;
use crate::core::area::Area;
use crate::core::execute::verif_ex::*;
use crate::number::big_number::verif_bn::{m_div, m_mul, m_new1};
use crate::number::big_number::BigNum;
use crate::number::num::verif_num::{m_num_add, m_num_mul, num_is, num_of_v};
use crate::vlib::*;
use crate::vspec::*;

/// the language definition iterated the way the optimiser's pre-execution is specified:
/// the command is appended at `start`; run until control passes it; more than `budget` jumps or
/// any pop from stacks 0..2 => give up (None)
fn spec_prefix(s: &mut SState, code: &SCode, start: usize) -> Option<()> {
    // pre-loaded commands are fillers (`형.` = push 1 to the selected stack, no area)
    let filler = SCode { kind: 0, h: 1, d: 1, area: SArea { nodes: [(0, NIL, NIL); 7], root: NIL }, ac: 1 };
    let mut loc = start;
    let mut jumps = 0;
    while loc <= start {
        let c = if loc == start { code } else { &filler };
        // giving up before any pop from the I/O stacks: a command that would pop from 0..2
        if would_pop_io(s, c) {
            return None;
        }
        let before_cur = s.cur;
        match spec_step(s, c, loc) {
            End::Next(n) => {
                if n != loc + 1 {
                    jumps += 1;
                    if jumps > 100 {
                        return None;
                    }
                }
                loc = n;
            }
            _ => return None,
        }
    }
    Some(())
}
/// does executing `c` in state `s` pop from stack 0, 1 or 2 (operand pops or area pops)?
fn would_pop_io(s: &SState, c: &SCode) -> bool {
    let pops_operand = c.kind != 0 && !(c.kind <= 4 && c.h == 0);
    if pops_operand && s.cur <= 2 {
        return true;
    }
    let cur_after = if c.kind == 5 { c.d } else { s.cur };
    let area_pops = c.area.root != NIL && c.area.nodes[c.area.root].0 <= 1;
    area_pops && cur_after <= 2
}

/// C02/C10 body: one opt_execute call from the symbolic pre-state of grid point `c`
/// (the command is APPENDED to a program of NCODE filler commands)
pub(crate) fn opt_check(c: &Cfg) {
    let cc = Cfg { loc: NCODE, ..*c };
    let Pre { mut s, mut l, code, mut rd } = mk_pre(&cc);
    // take the command out of the store again: opt_execute appends it itself
    let cmd = std::mem::replace(&mut l.code[NCODE], OptCode::new(0, 1, 1, 1, Area::Nil));
    let pre = s;
    let want = spec_prefix(&mut s, &code, NCODE);
    unsafe {
        EXIT_FORBIDDEN = true;
    }
    rd.forbidden = true;
    let mut out = CapW::new(false);
    let mut err = CapW::new(true);
    let got = opt_execute(&mut rd, &mut out, &mut err, l, &cmd);
    match got {
        Ok((post, true)) => {
            assert!(want.is_some(), "pre-execution committed although the definition requires giving up");
            assert!(same_state(&post, &s), "committed state differs from the language definition");
            assert!(same_output(&out, &s.out, s.olen), "captured standard output differs");
            assert!(same_output(&err, &s.err, s.elen), "captured standard error differs");
            assert!(post.ncode == NCODE + 1);
            std::mem::forget(post);
        }
        Ok((post, false)) => {
            // giving up is always allowed to be conservative, but it must leave nothing behind
            assert!(same_state(&post, &pre), "state not rolled back after giving up");
            assert!(post.ncode == NCODE, "command left in the program after giving up");
            assert!(out.len == 0 && err.len == 0, "output of an abandoned command was kept");
            // (giving up without need is NOT an error: the property only forbids a change of
            // behaviour, a more conservative optimiser is still correct)
            std::mem::forget(post);
        }
        Err(e) => {
            // an encoding error while capturing output: the unoptimised run stops the same way
            let mut s2 = pre;
            assert!(spec_step(&mut s2, &code, NCODE) == End::EncodingError, "error without an encoding error in the definition");
            std::mem::forget(e);
        }
    }
    assert!(rd.reads == 0, "standard input was read");
    vcover!();
    std::mem::forget((rd, out, err, cmd));
}

macro_rules! ostep {
    ($name:ident, $cfg:expr) => {
        #[cfg_attr(kani, kani::proof)]
        #[cfg_attr(kani, kani::stub(crate::number::num::Num::add, m_num_add))]
        #[cfg_attr(kani, kani::stub(crate::number::num::Num::mul, m_num_mul))]
        #[cfg_attr(kani, kani::stub(crate::number::big_number::BigNum::mul, m_mul))]
        #[cfg_attr(kani, kani::stub(crate::number::big_number::BigNum::div, m_div))]
        #[cfg_attr(kani, kani::stub(crate::number::big_number::BigNum::new, m_new1))]
        #[cfg_attr(kani, kani::stub(crate::number::big_number::BigNum::to_string_base, m_to_string_digit))]
        #[cfg_attr(kani, kani::stub(std::process::exit, exit_model))]
        #[cfg_attr(kani, kani::stub(std::fmt::format, fmt_model))]
        pub fn $name() {
            let c: Cfg = $cfg;
            opt_check(&c);
        }
    };
}

// ---- grid ----
// @h prop=C02 unwind=10 rec=2 cutfmt=1 uw=same_output.0:25;exit_model.0:25;exit.0:25;push.0:17;write.0:17 timeout=3600 mem=12 what=형_commits
ostep!(o_push, Cfg { kind: 0, h: 2, d: 3, depth: [0, 0, 0, 1, 0, 0], ..CFG0 });
// @h prop=C02 unwind=10 rec=2 cutfmt=1 uw=same_output.0:25;exit_model.0:25;exit.0:25;push.0:17;write.0:17 timeout=3600 mem=12 what=항_2_operands
ostep!(o_add2, Cfg { kind: 1, h: 2, d: 4, depth: [0, 0, 0, 3, 1, 0], ..CFG0 });
// @h prop=C02 unwind=10 rec=2 cutfmt=1 uw=same_output.0:25;exit_model.0:25;exit.0:25;push.0:17;write.0:17 timeout=3600 mem=12 what=핫_2_operands
ostep!(o_mul2, Cfg { kind: 2, h: 2, d: 5, depth: [0, 0, 0, 2, 0, 1], ..CFG0 });
// @h prop=C02 unwind=10 rec=2 cutfmt=1 uw=same_output.0:25;exit_model.0:25;exit.0:25;push.0:17;write.0:17 timeout=3600 mem=12 what=흣_1_operand
ostep!(o_neg1, Cfg { kind: 3, h: 1, d: 4, depth: [0, 0, 0, 2, 0, 0], ..CFG0 });
// @h prop=C02 unwind=10 rec=2 cutfmt=1 uw=same_output.0:25;exit_model.0:25;exit.0:25;push.0:17;write.0:17 timeout=3600 mem=12 what=흣_2_operands:restored_in_original_order
ostep!(o_neg2, Cfg { kind: 3, h: 2, d: 4, depth: [0, 0, 0, 2, 0, 0], ..CFG0 });
// @h prop=C02 unwind=10 rec=2 cutfmt=1 uw=same_output.0:25;exit_model.0:25;exit.0:25;push.0:17;write.0:17 timeout=2700 mem=12 tier=thorough kind=stretch what=흣_2_operands,target_stack_=_selected_stack:sum_lands_on_top_of_the_restored_operands(quick_probe:out_of_memory_at_12_GB_after_118_s)
ostep!(o_neg2_same, Cfg { kind: 3, h: 2, d: 3, depth: [0, 0, 0, 2, 0, 0], ..CFG0 });
// @h prop=C02 unwind=10 rec=2 cutfmt=1 uw=same_output.0:25;exit_model.0:25;exit.0:25;push.0:17;write.0:17 timeout=2700 tier=thorough kind=stretch what=흡_2_operands,target_stack_=_selected_stack
ostep!(o_inv2_same, Cfg { kind: 4, h: 2, d: 3, dom: Dom::Frac, depth: [0, 0, 0, 2, 0, 0], ..CFG0 });
// @h prop=C02 unwind=10 rec=2 cutfmt=1 uw=same_output.0:25;exit_model.0:25;exit.0:25;push.0:17;write.0:17 timeout=2700 tier=thorough kind=stretch what=흣_3_operands
ostep!(o_neg3, Cfg { kind: 3, h: 3, d: 4, depth: [0, 0, 0, 3, 0, 0], ..CFG0 });
// @h prop=C02 unwind=10 rec=2 cutfmt=1 uw=same_output.0:25;exit_model.0:25;exit.0:25;push.0:17;write.0:17 timeout=2700 what=흡_2_operands:restored_in_original_order
ostep!(o_inv2, Cfg { kind: 4, h: 2, d: 4, dom: Dom::Frac, depth: [0, 0, 0, 2, 0, 0], ..CFG0 });
// @h prop=C02 unwind=10 rec=2 cutfmt=1 uw=same_output.0:25;exit_model.0:25;exit.0:25;push.0:17;write.0:17 timeout=3600 mem=12 what=흑_select_4
ostep!(o_dup1, Cfg { kind: 5, h: 1, d: 4, depth: [0, 0, 0, 2, 1, 0], ..CFG0 });
// @h prop=C02 unwind=10 rec=3 cutfmt=1 uw=same_output.0:25;exit_model.0:25;exit.0:25;push.0:17;write.0:17 timeout=2700 tier=thorough kind=stretch what=흑_then_?_on_the_new_stack
ostep!(o_dup_area, Cfg { kind: 5, h: 1, d: 4, area: 3, depth: [0, 0, 0, 2, 2, 0], ..CFG0 });
// @h prop=C02 unwind=10 rec=2 cutfmt=1 uw=same_output.0:25;exit_model.0:25;exit.0:25;push.0:17;write.0:17 timeout=3600 mem=12 what=label_registration_is_part_of_the_committed_state
ostep!(o_heart_new, Cfg { kind: 0, h: 1, d: 2, area: 1, depth: [0, 0, 0, 1, 0, 0], ..CFG0 });
// @h prop=C02 unwind=10 rec=3 cutfmt=1 uw=same_output.0:25;exit_model.0:25;exit.0:25;push.0:17;write.0:17 timeout=2700 what=?_area_pop_on_stack_3
ostep!(o_q, Cfg { kind: 0, h: 1, d: 2, area: 3, depth: [0, 0, 0, 2, 0, 0], ..CFG0 });
// @h prop=C02 unwind=10 rec=2 cutfmt=num uw=same_output.0:25;exit_model.0:25;exit.0:25;push.0:17;write.0:17 timeout=3600 tier=thorough kind=stretch what=항_to_stdout:captured_output_equals_definition_or_same_encoding_error
ostep!(o_out_char, Cfg { kind: 1, h: 1, d: 1, dom: Dom::Scalar, depth: [0, 0, 0, 2, 0, 0], ..CFG0 });
// @h prop=C02 unwind=10 rec=2 cutfmt=num uw=same_output.0:25;exit_model.0:25;exit.0:25;push.0:17;write.0:17 timeout=2700 tier=thorough kind=stretch what=항_to_stderr:negative/NaN_text_captured
ostep!(o_err_neg, Cfg { kind: 1, h: 1, d: 2, dom: Dom::Digit, depth: [0, 0, 0, 2, 0, 0], ..CFG0 });
// @h prop=C02 unwind=10 rec=3 cutfmt=num uw=same_output.0:25;exit_model.0:25;exit.0:25;push.0:17;write.0:17 timeout=2700 what=형?_with_stdout_selected:prints_then_must_give_up->no_output_kept,state_restored
ostep!(o_print_then_bail, Cfg { kind: 0, h: 8, d: 8, cur: 1, area: 3, depth: [0, 0, 0, 1, 0, 0], ..CFG0 });
// @h prop=C02 unwind=10 rec=3 cutfmt=num uw=same_output.0:25;exit_model.0:25;exit.0:25;push.0:17;write.0:17 timeout=2700 tier=thorough kind=stretch what=흑_copies_to_stdout,selects_it,area_pop_forces_giving_up
ostep!(o_dup_print_bail, Cfg { kind: 5, h: 2, d: 1, area: 4, dom: Dom::Scalar, depth: [0, 0, 0, 1, 0, 0], ..CFG0 });
// @h prop=C02 unwind=10 rec=3 cutfmt=num uw=same_output.0:25;exit_model.0:25;exit.0:25;push.0:17;write.0:17 timeout=2700 tier=thorough kind=stretch what=흣_to_stderr_then_?_on_stack_3:commits_with_output
ostep!(o_neg_out_bail, Cfg { kind: 3, h: 1, d: 2, cur: 3, area: 3, dom: Dom::Digit, depth: [0, 0, 0, 1, 0, 0], ..CFG0 });
// @h prop=C10 unwind=10 rec=2 cutfmt=1 uw=same_output.0:25;exit_model.0:25;exit.0:25;push.0:17;write.0:17 timeout=3600 mem=12 what=kind_1_with_stack_0_selected:gives_up,state_untouched,no_read,no_exit,no_output
ostep!(n_k1_c0, Cfg { kind: 1, h: 1, d: 3, cur: 0, depth: [1, 0, 0, 1, 0, 0], ..CFG0 });
// @h prop=C10 unwind=10 rec=2 cutfmt=1 uw=same_output.0:25;exit_model.0:25;exit.0:25;push.0:17;write.0:17 timeout=3600 mem=12 what=kind_2_with_stack_0_selected:gives_up,state_untouched,no_read,no_exit,no_output
ostep!(n_k2_c0, Cfg { kind: 2, h: 2, d: 3, cur: 0, depth: [1, 0, 0, 1, 0, 0], ..CFG0 });
// @h prop=C10 unwind=10 rec=2 cutfmt=1 uw=same_output.0:25;exit_model.0:25;exit.0:25;push.0:17;write.0:17 timeout=3600 mem=12 what=kind_3_with_stack_0_selected:gives_up,state_untouched,no_read,no_exit,no_output
ostep!(n_k3_c0, Cfg { kind: 3, h: 2, d: 3, cur: 0, depth: [1, 0, 0, 1, 0, 0], ..CFG0 });
// @h prop=C10 unwind=10 rec=2 cutfmt=1 uw=same_output.0:25;exit_model.0:25;exit.0:25;push.0:17;write.0:17 timeout=3600 mem=12 what=kind_4_with_stack_0_selected:gives_up,state_untouched,no_read,no_exit,no_output
ostep!(n_k4_c0, Cfg { kind: 4, h: 1, d: 3, cur: 0, depth: [1, 0, 0, 1, 0, 0], ..CFG0 });
// @h prop=C10 unwind=10 rec=2 cutfmt=1 uw=same_output.0:25;exit_model.0:25;exit.0:25;push.0:17;write.0:17 timeout=3600 mem=12 what=kind_5_with_stack_0_selected:gives_up,state_untouched,no_read,no_exit,no_output
ostep!(n_k5_c0, Cfg { kind: 5, h: 1, d: 3, cur: 0, depth: [1, 0, 0, 1, 0, 0], ..CFG0 });
// @h prop=C10 unwind=10 rec=3 cutfmt=num uw=same_output.0:25;exit_model.0:25;exit.0:25;push.0:17;write.0:17 timeout=3600 mem=12 what=형?_with_stack_0_selected:push_then_area_pop->gives_up
ostep!(n_area_c0, Cfg { kind: 0, h: 1, d: 1, cur: 0, area: 3, depth: [1, 0, 0, 1, 0, 0], ..CFG0 });
// @h prop=C10 unwind=10 rec=3 cutfmt=num uw=same_output.0:25;exit_model.0:25;exit.0:25;push.0:17;write.0:17 timeout=3600 mem=12 what=흑_selects_stack_0_then_!_area_pop->gives_up
ostep!(n_dup_to_c0, Cfg { kind: 5, h: 1, d: 0, area: 4, depth: [1, 0, 0, 1, 0, 0], ..CFG0 });
// @h prop=C10 unwind=10 rec=2 cutfmt=1 uw=same_output.0:25;exit_model.0:25;exit.0:25;push.0:17;write.0:17 timeout=3600 mem=12 what=kind_1_with_stack_1_selected:gives_up,state_untouched,no_read,no_exit,no_output
ostep!(n_k1_c1, Cfg { kind: 1, h: 1, d: 3, cur: 1, depth: [1, 0, 0, 1, 0, 0], ..CFG0 });
// @h prop=C10 unwind=10 rec=2 cutfmt=1 uw=same_output.0:25;exit_model.0:25;exit.0:25;push.0:17;write.0:17 timeout=3600 mem=12 what=kind_2_with_stack_1_selected:gives_up,state_untouched,no_read,no_exit,no_output
ostep!(n_k2_c1, Cfg { kind: 2, h: 2, d: 3, cur: 1, depth: [1, 0, 0, 1, 0, 0], ..CFG0 });
// @h prop=C10 unwind=10 rec=2 cutfmt=1 uw=same_output.0:25;exit_model.0:25;exit.0:25;push.0:17;write.0:17 timeout=3600 mem=12 what=kind_3_with_stack_1_selected:gives_up,state_untouched,no_read,no_exit,no_output
ostep!(n_k3_c1, Cfg { kind: 3, h: 2, d: 3, cur: 1, depth: [1, 0, 0, 1, 0, 0], ..CFG0 });
// @h prop=C10 unwind=10 rec=2 cutfmt=1 uw=same_output.0:25;exit_model.0:25;exit.0:25;push.0:17;write.0:17 timeout=3600 mem=12 what=kind_4_with_stack_1_selected:gives_up,state_untouched,no_read,no_exit,no_output
ostep!(n_k4_c1, Cfg { kind: 4, h: 1, d: 3, cur: 1, depth: [1, 0, 0, 1, 0, 0], ..CFG0 });
// @h prop=C10 unwind=10 rec=2 cutfmt=1 uw=same_output.0:25;exit_model.0:25;exit.0:25;push.0:17;write.0:17 timeout=3600 mem=12 what=kind_5_with_stack_1_selected:gives_up,state_untouched,no_read,no_exit,no_output
ostep!(n_k5_c1, Cfg { kind: 5, h: 1, d: 3, cur: 1, depth: [1, 0, 0, 1, 0, 0], ..CFG0 });
// @h prop=C10 unwind=10 rec=3 cutfmt=num uw=same_output.0:25;exit_model.0:25;exit.0:25;push.0:17;write.0:17 timeout=3600 mem=12 what=형?_with_stack_1_selected:push_then_area_pop->gives_up
ostep!(n_area_c1, Cfg { kind: 0, h: 1, d: 1, cur: 1, area: 3, depth: [1, 0, 0, 1, 0, 0], ..CFG0 });
// @h prop=C10 unwind=10 rec=3 cutfmt=num uw=same_output.0:25;exit_model.0:25;exit.0:25;push.0:17;write.0:17 timeout=3600 mem=12 tier=thorough kind=stretch what=흑_selects_stack_1_then_!_area_pop->gives_up
ostep!(n_dup_to_c1, Cfg { kind: 5, h: 1, d: 1, area: 4, dom: Dom::Digit, depth: [1, 0, 0, 1, 0, 0], ..CFG0 });
// @h prop=C10 unwind=10 rec=2 cutfmt=1 uw=same_output.0:25;exit_model.0:25;exit.0:25;push.0:17;write.0:17 timeout=3600 mem=12 what=kind_1_with_stack_2_selected:gives_up,state_untouched,no_read,no_exit,no_output
ostep!(n_k1_c2, Cfg { kind: 1, h: 1, d: 3, cur: 2, depth: [1, 0, 0, 1, 0, 0], ..CFG0 });
// @h prop=C10 unwind=10 rec=2 cutfmt=1 uw=same_output.0:25;exit_model.0:25;exit.0:25;push.0:17;write.0:17 timeout=3600 mem=12 what=kind_2_with_stack_2_selected:gives_up,state_untouched,no_read,no_exit,no_output
ostep!(n_k2_c2, Cfg { kind: 2, h: 2, d: 3, cur: 2, depth: [1, 0, 0, 1, 0, 0], ..CFG0 });
// @h prop=C10 unwind=10 rec=2 cutfmt=1 uw=same_output.0:25;exit_model.0:25;exit.0:25;push.0:17;write.0:17 timeout=3600 mem=12 what=kind_3_with_stack_2_selected:gives_up,state_untouched,no_read,no_exit,no_output
ostep!(n_k3_c2, Cfg { kind: 3, h: 2, d: 3, cur: 2, depth: [1, 0, 0, 1, 0, 0], ..CFG0 });
// @h prop=C10 unwind=10 rec=2 cutfmt=1 uw=same_output.0:25;exit_model.0:25;exit.0:25;push.0:17;write.0:17 timeout=3600 mem=12 what=kind_4_with_stack_2_selected:gives_up,state_untouched,no_read,no_exit,no_output
ostep!(n_k4_c2, Cfg { kind: 4, h: 1, d: 3, cur: 2, depth: [1, 0, 0, 1, 0, 0], ..CFG0 });
// @h prop=C10 unwind=10 rec=2 cutfmt=1 uw=same_output.0:25;exit_model.0:25;exit.0:25;push.0:17;write.0:17 timeout=3600 mem=12 what=kind_5_with_stack_2_selected:gives_up,state_untouched,no_read,no_exit,no_output
ostep!(n_k5_c2, Cfg { kind: 5, h: 1, d: 3, cur: 2, depth: [1, 0, 0, 1, 0, 0], ..CFG0 });
// @h prop=C10 unwind=10 rec=3 cutfmt=num uw=same_output.0:25;exit_model.0:25;exit.0:25;push.0:17;write.0:17 timeout=3600 mem=12 what=형?_with_stack_2_selected:push_then_area_pop->gives_up
ostep!(n_area_c2, Cfg { kind: 0, h: 1, d: 1, cur: 2, area: 3, depth: [1, 0, 0, 1, 0, 0], ..CFG0 });
// @h prop=C10 unwind=10 rec=3 cutfmt=num uw=same_output.0:25;exit_model.0:25;exit.0:25;push.0:17;write.0:17 timeout=3600 mem=12 tier=thorough kind=stretch what=흑_selects_stack_2_then_!_area_pop->gives_up
ostep!(n_dup_to_c2, Cfg { kind: 5, h: 1, d: 2, area: 4, dom: Dom::Digit, depth: [1, 0, 0, 1, 0, 0], ..CFG0 });
// @h prop=C10 unwind=10 rec=2 cutfmt=1 uw=same_output.0:25;exit_model.0:25;exit.0:25;push.0:17;write.0:17 timeout=3600 mem=12 what=형_with_stdin_selected_and_no_area:pushes_onto_the_input_buffer,commits,no_read
ostep!(n_push_c0, Cfg { kind: 0, h: 2, d: 2, cur: 0, depth: [1, 0, 0, 0, 0, 0], ..CFG0 });

// vacuity twin (must FAIL)
// @h prop=C02 unwind=10 rec=2 cutfmt=1 uw=same_output.0:25;exit_model.0:25;exit.0:25;push.0:17;write.0:17 timeout=3600 mem=12 kind=twin
#[cfg_attr(kani, kani::proof)]
#[cfg_attr(kani, kani::stub(crate::number::num::Num::add, m_num_add))]
#[cfg_attr(kani, kani::stub(crate::number::num::Num::mul, m_num_mul))]
#[cfg_attr(kani, kani::stub(crate::number::big_number::BigNum::mul, m_mul))]
#[cfg_attr(kani, kani::stub(crate::number::big_number::BigNum::div, m_div))]
#[cfg_attr(kani, kani::stub(crate::number::big_number::BigNum::new, m_new1))]
#[cfg_attr(kani, kani::stub(std::process::exit, exit_model))]
#[cfg_attr(kani, kani::stub(std::fmt::format, fmt_model))]
pub fn twin_ostep() {
    let c = Cfg { kind: 1, h: 2, d: 4, depth: [0, 0, 0, 3, 1, 0], ..CFG0 };
    opt_check(&c);
    assert!(false);
}
// @h prop=C10 unwind=10 rec=2 cutfmt=1 uw=same_output.0:25;exit_model.0:25;exit.0:25;push.0:17;write.0:17 timeout=3600 mem=12 kind=twin
#[cfg_attr(kani, kani::proof)]
#[cfg_attr(kani, kani::stub(crate::number::num::Num::add, m_num_add))]
#[cfg_attr(kani, kani::stub(crate::number::num::Num::mul, m_num_mul))]
#[cfg_attr(kani, kani::stub(crate::number::big_number::BigNum::mul, m_mul))]
#[cfg_attr(kani, kani::stub(crate::number::big_number::BigNum::div, m_div))]
#[cfg_attr(kani, kani::stub(crate::number::big_number::BigNum::new, m_new1))]
#[cfg_attr(kani, kani::stub(std::process::exit, exit_model))]
#[cfg_attr(kani, kani::stub(std::fmt::format, fmt_model))]
pub fn twin_noeffect() {
    let c = Cfg { kind: 1, h: 1, d: 3, cur: 0, depth: [1, 0, 0, 1, 0, 0], ..CFG0 };
    opt_check(&c);
    assert!(false);
}

// ===========================================================================
// C02 family 3: the bounds-checked overrides of OptState agree with the State trait defaults
// (the NaN rule) for stacks inside the range, and are no-ops / NaN outside it.
// ===========================================================================
fn rs_model() -> std::collections::hash_map::RandomState {
    // fixed keys: HashMap::new() otherwise asks the OS for randomness (FFI)
    unsafe { std::mem::transmute((0u64, 0u64)) }
}
fn optstate_ops(idx: usize, depth: usize) {
    let size = 5usize;
    let a = any_v(Dom::I8, false);
    let b = any_v(Dom::I8, true);
    let x = any_v(Dom::I8, true);
    let mut st = OptState::new(size);
    // Buffers of the five stacks are LOCAL arrays handed to Vec::from_raw_parts (never freed:
    // everything is forgotten at the end): the symbolic executor keeps lengths, capacities and
    // contents of objects it knows statically, which it does not for heap allocations.
    let mut bufs: [[std::mem::MaybeUninit<Num>; 4]; 5] = unsafe { std::mem::MaybeUninit::uninit().assume_init() };
    let mut i = 0;
    while i < size {
        let v = unsafe { Vec::from_raw_parts(bufs[i].as_mut_ptr() as *mut Num, 0, 4) };
        let old = std::mem::replace(st.get_stack(i), v);
        std::mem::forget(old);
        i += 1;
    }
    // definition on a plain array
    let mut m = [NAN; 4];
    let mut ml = 0usize;
    if idx < size {
        if depth >= 1 {
            st.get_stack(idx).push(num_of_v(a));
            m[0] = a;
            ml = 1;
        }
        if depth >= 2 {
            st.get_stack(idx).push(num_of_v(b));
            m[1] = b;
            ml = 2;
        }
    }
    st.push_stack(idx, num_of_v(x));
    if idx < size && !(ml == 0 && x.is_nan()) {
        m[ml] = x;
        ml += 1;
    }
    if idx < size {
        assert!(st.get_stack(idx).len() == ml, "push_stack: wrong stack depth (NaN rule / range check)");
    }
    // pop everything and one more
    let mut k = 0;
    while k < 4 {
        let got = st.pop_stack(idx);
        let want = if idx < size && ml > 0 {
            ml -= 1;
            m[ml]
        } else {
            NAN
        };
        assert!(num_is(&got, want), "pop_stack differs from the definition");
        std::mem::forget(got);
        k += 1;
    }
    assert!(st.stack_size() == size && st.current_stack() == 3);
    std::mem::forget(st);
}
macro_rules! optstate {
    ($name:ident, $idx:expr, $depth:expr) => {
        #[cfg_attr(kani, kani::proof)]
        #[cfg_attr(kani, kani::stub(std::collections::hash_map::RandomState::new, rs_model))]
        pub fn $name() {
            optstate_ops($idx, $depth);
            vcover!();
        }
    };
}
// @h prop=C02 unwind=8 timeout=2400 mem=12 tier=thorough kind=stretch stubs=RandomState::new->fixed_keys what=OptState::push_stack/pop_stack_on_stack_0_of_5,pre-depth_0:NaN_rule_of_the_trait_default,out-of-range=no-op/NaN
optstate!(optstate_i0_d0, 0, 0);
// @h prop=C02 unwind=8 timeout=2400 mem=12 tier=thorough kind=stretch stubs=RandomState::new->fixed_keys what=OptState::push_stack/pop_stack_on_stack_0_of_5,pre-depth_1:NaN_rule_of_the_trait_default,out-of-range=no-op/NaN
optstate!(optstate_i0_d1, 0, 1);
// @h prop=C02 unwind=8 timeout=2400 mem=12 tier=thorough kind=stretch stubs=RandomState::new->fixed_keys what=OptState::push_stack/pop_stack_on_stack_0_of_5,pre-depth_2:NaN_rule_of_the_trait_default,out-of-range=no-op/NaN
optstate!(optstate_i0_d2, 0, 2);
// @h prop=C02 unwind=8 timeout=2400 mem=12 tier=thorough kind=stretch stubs=RandomState::new->fixed_keys what=OptState::push_stack/pop_stack_on_stack_3_of_5,pre-depth_0:NaN_rule_of_the_trait_default,out-of-range=no-op/NaN
optstate!(optstate_i3_d0, 3, 0);
// @h prop=C02 unwind=8 timeout=2400 mem=12 tier=thorough kind=stretch stubs=RandomState::new->fixed_keys what=OptState::push_stack/pop_stack_on_stack_3_of_5,pre-depth_1:NaN_rule_of_the_trait_default,out-of-range=no-op/NaN
optstate!(optstate_i3_d1, 3, 1);
// @h prop=C02 unwind=8 timeout=2400 mem=12 tier=thorough kind=stretch stubs=RandomState::new->fixed_keys what=OptState::push_stack/pop_stack_on_stack_3_of_5,pre-depth_2:NaN_rule_of_the_trait_default,out-of-range=no-op/NaN
optstate!(optstate_i3_d2, 3, 2);
// @h prop=C02 unwind=8 timeout=2400 mem=12 tier=thorough kind=stretch stubs=RandomState::new->fixed_keys what=OptState::push_stack/pop_stack_on_stack_4_of_5,pre-depth_0:NaN_rule_of_the_trait_default,out-of-range=no-op/NaN
optstate!(optstate_i4_d0, 4, 0);
// @h prop=C02 unwind=8 timeout=2400 mem=12 tier=thorough kind=stretch stubs=RandomState::new->fixed_keys what=OptState::push_stack/pop_stack_on_stack_4_of_5,pre-depth_1:NaN_rule_of_the_trait_default,out-of-range=no-op/NaN
optstate!(optstate_i4_d1, 4, 1);
// @h prop=C02 unwind=8 timeout=2400 mem=12 tier=thorough kind=stretch stubs=RandomState::new->fixed_keys what=OptState::push_stack/pop_stack_on_stack_4_of_5,pre-depth_2:NaN_rule_of_the_trait_default,out-of-range=no-op/NaN
optstate!(optstate_i4_d2, 4, 2);
// @h prop=C02 unwind=8 timeout=2400 mem=12 stubs=RandomState::new->fixed_keys what=OptState::push_stack/pop_stack_on_stack_5_of_5,pre-depth_0:NaN_rule_of_the_trait_default,out-of-range=no-op/NaN
optstate!(optstate_i5_d0, 5, 0);
// @h prop=C02 unwind=8 timeout=2400 mem=12 stubs=RandomState::new->fixed_keys what=OptState::push_stack/pop_stack_on_stack_7_of_5,pre-depth_0:NaN_rule_of_the_trait_default,out-of-range=no-op/NaN
optstate!(optstate_i7_d0, 7, 0);

// ===========================================================================
// C10: the 100-jump budget.  Two-command loops whose state does not grow: the appended command
// jumps back (through a label, or through the white heart) for ever; pre-execution must give
// up after exactly 100 jumps and leave nothing behind.  The opt_execute loop is unwound 204
// times; if the budget were not enforced the unwinding assertion fails = no termination within
// the bound = violation (`unwind_is_violation`).
// ===========================================================================
fn budget_check(white: bool) {
    // The loop body is chosen so that every value the symbolic executor meets is concrete
    // (흑 on an EMPTY selected stack: pops NaN, copies and restores nothing): 2 x 100 iterations of
    // the real loop are then affordable.  What varies is only which jump path closes the loop.
    let ac = 7usize;
    let lbl = ((ac as u128) << 4) + 4;
    // loc 0: 흑 (stay on stack 3) with a heart registered HERE
    let a = OptCode::new(5, 1, 3, ac, Area::new(4));
    let filler = || OptCode::new(0, 1, 1, 1, Area::Nil);
    // appended: same command; its heart is registered at loc 0 -> jumps there every time,
    // or the white heart with a last jump source of 0
    let cmd = OptCode::new(5, 1, 3, ac, if white { Area::new(13) } else { Area::new(4) });
    let l = LState {
        st: [Vec::new(), Vec::new(), Vec::new(), Vec::new(), Vec::new(), Vec::new()],
        code: [a, filler(), filler(), filler()],
        ncode: 1,
        cur: 3,
        latest: if white { Some(0) } else { None },
        pts: [(lbl, 0), (0, 0), (0, 0)],
        npts: 1,
    };
    unsafe {
        EXIT_FORBIDDEN = true;
    }
    let mut rd = LineReader { line: Vec::new(), avail: false, reads: 0, forbidden: true };
    let mut out = CapW::new(false);
    let mut err = CapW::new(true);
    let got = opt_execute(&mut rd, &mut out, &mut err, l, &cmd);
    match got {
        Ok((post, false)) => {
            assert!(post.ncode == 1 && post.cur == 3 && post.npts == 1, "state not rolled back after the budget ran out");
            assert!(post.st[3].is_empty(), "stack not rolled back");
            assert!(post.latest == if white { Some(0) } else { None }, "last jump source not rolled back");
            assert!(out.len == 0 && err.len == 0 && rd.reads == 0);
            std::mem::forget(post);
        }
        Ok((post, true)) => assert!(false, "an endless loop was 'completed'"),
        Err(_) => assert!(false, "error"),
    }
    vcover!();
    std::mem::forget((rd, out, err, cmd));
}
// @h prop=C10 unwind=8 rec=2 cutfmt=1 uw=opt_execute.0:204;opt_execute.1:204;opt_execute.2:204;opt_execute.3:204;opt_execute.4:204;opt_execute.5:204;opt_execute.6:204;opt_execute.7:204;opt_execute.8:204 unwind_is_violation=opt_execute timeout=18000 mem=24 tier=thorough kind=stretch what=endless_label-jump_loop:gives_up_after_100_jumps,state_rolled_back
#[cfg_attr(kani, kani::proof)]
#[cfg_attr(kani, kani::stub(crate::number::num::Num::add, m_num_add))]
#[cfg_attr(kani, kani::stub(crate::number::num::Num::mul, m_num_mul))]
#[cfg_attr(kani, kani::stub(crate::number::big_number::BigNum::mul, m_mul))]
#[cfg_attr(kani, kani::stub(crate::number::big_number::BigNum::new, m_new1))]
#[cfg_attr(kani, kani::stub(std::process::exit, exit_model))]
#[cfg_attr(kani, kani::stub(std::fmt::format, fmt_model))]
pub fn budget_label() {
    budget_check(false);
}
// @h prop=C10 unwind=8 rec=2 cutfmt=1 uw=opt_execute.0:204;opt_execute.1:204;opt_execute.2:204;opt_execute.3:204;opt_execute.4:204;opt_execute.5:204;opt_execute.6:204;opt_execute.7:204;opt_execute.8:204 unwind_is_violation=opt_execute timeout=18000 mem=24 tier=thorough kind=stretch what=endless_white-heart_loop:gives_up_after_100_jumps,state_rolled_back
#[cfg_attr(kani, kani::proof)]
#[cfg_attr(kani, kani::stub(crate::number::num::Num::add, m_num_add))]
#[cfg_attr(kani, kani::stub(crate::number::num::Num::mul, m_num_mul))]
#[cfg_attr(kani, kani::stub(crate::number::big_number::BigNum::mul, m_mul))]
#[cfg_attr(kani, kani::stub(crate::number::big_number::BigNum::new, m_new1))]
#[cfg_attr(kani, kani::stub(std::process::exit, exit_model))]
#[cfg_attr(kani, kani::stub(std::fmt::format, fmt_model))]
pub fn budget_white() {
    budget_check(true);
}

// ===========================================================================
// C02: one pre-executed command that LOOPS through an earlier command and writes to BOTH
// streams before it is kept: the forwarded stdout and stderr must each equal the definition's.
//   loc 0 (pre-loaded) A: 항 -> stdout, with a heart registered at loc 0
//   loc 1 (appended)   B: 항 -> stderr, area [heart]?[_]: popped < 5 => jump to the label (loc 0)
// Stack 3 holds five symbolic digits/NaN; both branch decisions are symbolic.
// ===========================================================================
fn two_stream_check() {
    let ac = 5usize;
    let vals = [any_v(Dom::Digit, false), any_v(Dom::Digit, true), any_v(Dom::Digit, true), any_v(Dom::Digit, true), any_v(Dom::Digit, true)];
    let (sa_heart, ra_heart) = mk_area(1); // heart type 4
    // B's area: [h4] ? [_]
    let sb = SArea { nodes: [(0, 1, NIL), (4, NIL, NIL), (0, NIL, NIL), (0, NIL, NIL), (0, NIL, NIL), (0, NIL, NIL), (0, NIL, NIL)], root: 0 };
    let rb = Area::Val { type_: 0, left: Box::new(Area::new(4)), right: Box::new(Area::Nil) };
    let lbl = ((ac as u128) << 4) + 4;
    let a_spec = SCode { kind: 1, h: 1, d: 1, area: sa_heart, ac };
    let b_spec = SCode { kind: 1, h: 1, d: 2, area: sb, ac };
    // definition
    let mut s = SState {
        st: [[NAN; DEPTH]; NSTK], len: [0, 0, 0, 5, 0, 0], cur: 3, out: [0; OBUF], olen: 0, err: [0; OBUF], elen: 0,
        pts: [(lbl, 0), (0, 0), (0, 0)], npts: 1, latest: None, line: [0; 4], line_len: 0, line_avail: false, reads: 0,
    };
    let mut i = 0;
    while i < 5 {
        s.st[3][i] = vals[i];
        i += 1;
    }
    let mut loc = 1usize;
    let mut steps = 0;
    let mut ok = true;
    while loc <= 1 && steps < 8 {
        let c = if loc == 0 { &a_spec } else { &b_spec };
        match spec_step(&mut s, c, loc) {
            End::Next(n) => loc = n,
            _ => {
                ok = false;
                break;
            }
        }
        steps += 1;
    }
    assume(ok && loc > 1);
    // repository
    let mut st3 = Vec::with_capacity(DEPTH);
    let mut i = 0;
    while i < 5 {
        st3.push(num_of_v(vals[i]));
        i += 1;
    }
    let filler = || OptCode::new(0, 1, 1, 1, Area::Nil);
    let l = LState {
        st: [Vec::new(), Vec::new(), Vec::new(), st3, Vec::new(), Vec::new()],
        code: [OptCode::new(1, 1, 1, ac, ra_heart), filler(), filler(), filler()],
        ncode: 1, cur: 3, latest: None, pts: [(lbl, 0), (0, 0), (0, 0)], npts: 1,
    };
    let cmd = OptCode::new(1, 1, 2, ac, rb);
    unsafe {
        EXIT_FORBIDDEN = true;
    }
    let mut rd = LineReader { line: Vec::new(), avail: false, reads: 0, forbidden: true };
    let mut out = CapW::new(false);
    let mut err = CapW::new(true);
    match opt_execute(&mut rd, &mut out, &mut err, l, &cmd) {
        Ok((post, true)) => {
            assert!(same_output(&out, &s.out, s.olen), "forwarded standard output differs from the definition");
            assert!(same_output(&err, &s.err, s.elen), "forwarded standard error differs from the definition");
            assert!(post.ncode == 2 && post.cur == 3 && post.latest == s.latest);
            assert!(post.st[3].len() == s.len[3]);
            std::mem::forget(post);
        }
        Ok((post, false)) => {
            // conservative give-up: nothing may be left behind
            assert!(post.ncode == 1 && post.cur == 3 && post.st[3].len() == 5 && out.len == 0 && err.len == 0);
            std::mem::forget(post);
        }
        Err(_) => assert!(false, "error in an input-free loop without encoding errors"),
    }
    vcover!();
    std::mem::forget((rd, out, err, cmd));
}
// @h prop=C02 unwind=10 rec=3 cutfmt=num uw=same_output.0:25;exit_model.0:25;exit.0:25;push.0:17;write.0:17 timeout=7200 mem=24 tier=thorough kind=stretch what=loop_through_an_earlier_command_writing_to_BOTH_streams:forwarded_stdout_and_stderr_equal_the_definition
#[cfg_attr(kani, kani::proof)]
#[cfg_attr(kani, kani::stub(crate::number::num::Num::add, m_num_add))]
#[cfg_attr(kani, kani::stub(crate::number::num::Num::mul, m_num_mul))]
#[cfg_attr(kani, kani::stub(crate::number::big_number::BigNum::mul, m_mul))]
#[cfg_attr(kani, kani::stub(crate::number::big_number::BigNum::div, m_div))]
#[cfg_attr(kani, kani::stub(crate::number::big_number::BigNum::new, m_new1))]
#[cfg_attr(kani, kani::stub(crate::number::big_number::BigNum::to_string_base, m_to_string_digit))]
#[cfg_attr(kani, kani::stub(std::process::exit, exit_model))]
#[cfg_attr(kani, kani::stub(std::fmt::format, fmt_model))]
pub fn o_two_streams() {
    two_stream_check();
}

// ---- additional grid points (thorough tier) ----
// @h prop=C02 unwind=10 rec=2 cutfmt=1 uw=same_output.0:25;exit_model.0:25;exit.0:25;push.0:17;write.0:17 timeout=3600 mem=12 tier=thorough what=흡_1_integer_operand
ostep!(o_inv1, Cfg { kind: 4, h: 1, d: 4, depth: [0, 0, 0, 1, 0, 0], ..CFG0 });
// @h prop=C02 unwind=10 rec=2 cutfmt=1 uw=same_output.0:25;exit_model.0:25;exit.0:25;push.0:17;write.0:17 timeout=3600 mem=12 tier=thorough what=흑_two_copies
ostep!(o_dup2, Cfg { kind: 5, h: 2, d: 5, depth: [0, 0, 0, 1, 0, 0], ..CFG0 });
// @h prop=C02 unwind=10 rec=3 cutfmt=1 uw=same_output.0:25;exit_model.0:25;exit.0:25;push.0:17;write.0:17 timeout=3600 mem=12 tier=thorough what=항_then_!
ostep!(o_e, Cfg { kind: 1, h: 1, d: 4, area: 4, depth: [0, 0, 0, 2, 0, 0], ..CFG0 });
// @h prop=C02 unwind=10 rec=2 cutfmt=1 uw=same_output.0:25;exit_model.0:25;exit.0:25;push.0:17;write.0:17 timeout=3600 mem=12 tier=thorough kind=stretch what=heart_with_a_symbolic_label_entry(jump_forward_out_of_the_prefix_or_registration)
ostep!(o_heart_tab, Cfg { kind: 0, h: 1, d: 2, area: 1, npts: 1, depth: [0, 0, 0, 1, 0, 0], ..CFG0 });
// @h prop=C02 unwind=10 rec=2 cutfmt=1 uw=same_output.0:25;exit_model.0:25;exit.0:25;push.0:17;write.0:17 timeout=3600 mem=12 tier=thorough what=항_with_stack_4_selected
ostep!(o_add2_c4, Cfg { kind: 1, h: 2, d: 5, cur: 4, depth: [0, 0, 0, 1, 2, 1], ..CFG0 });
// @h prop=C10 unwind=10 rec=2 cutfmt=1 uw=same_output.0:25;exit_model.0:25;exit.0:25;push.0:17;write.0:17 timeout=3600 mem=12 tier=thorough what=항_2_operands_with_stdin_selected_and_2_buffered_values:still_gives_up
ostep!(n_k1h2_c0, Cfg { kind: 1, h: 2, d: 3, cur: 0, depth: [2, 0, 0, 1, 0, 0], ..CFG0 });
// @h prop=C10 unwind=10 rec=3 cutfmt=num uw=same_output.0:25;exit_model.0:25;exit.0:25;push.0:17;write.0:17 timeout=3600 mem=12 tier=thorough what=형!_with_stdin_selected
ostep!(n_area_e_c0, Cfg { kind: 0, h: 1, d: 1, cur: 0, area: 4, depth: [1, 0, 0, 1, 0, 0], ..CFG0 });

// @h prop=C02 unwind=10 rec=2 cutfmt=1 uw=same_output.0:25;exit_model.0:25;exit.0:25;push.0:17;write.0:17 timeout=1800 mem=12 tier=thorough kind=stretch what=heart_with_one_label_entry(symbolic_id)_registered_at_a_LATER_location:forward_jump_leaves_the_prefix(commit)_or_new_registration
ostep!(o_heart_fwd, Cfg { kind: 0, h: 1, d: 2, area: 1, npts: 1, pts_fixed_loc: Some(NCODE + 2), depth: [0, 0, 0, 1, 0, 0], ..CFG0 });
// @h prop=C02 unwind=10 rec=2 cutfmt=1 uw=same_output.0:25;exit_model.0:25;exit.0:25;push.0:17;write.0:17 timeout=3600 mem=12 what=핫_with_zero_dots_in_pre-execution
ostep!(o_mul_to0, Cfg { kind: 2, h: 2, d: 0, depth: [1, 0, 0, 2, 0, 0], ..CFG0 });

// ---- pairwise grid (same points as C01's g_*): thorough tier, stretch ----
// @h prop=C02 unwind=10 rec=2 cutfmt=1 uw=same_output.0:25;exit_model.0:25;exit.0:25;push.0:17;write.0:17 timeout=3600 mem=12 tier=thorough kind=stretch what=pairwise_grid_g_k5_h3_d3_a1_c3
ostep!(og_k5_h3_d3_a1_c3, Cfg { kind: 5, h: 3, d: 3, cur: 3, area: 1, npts: 1, dom: Dom::I8, depth: [0, 0, 0, 3, 0, 0], ..CFG0 });
// @h prop=C02 unwind=10 rec=2 cutfmt=1 uw=same_output.0:25;exit_model.0:25;exit.0:25;push.0:17;write.0:17 timeout=3600 mem=12 tier=thorough kind=stretch what=pairwise_grid_g_k2_h1_d4_a0_c4
ostep!(og_k2_h1_d4_a0_c4, Cfg { kind: 2, h: 1, d: 4, cur: 4, area: 0, npts: 0, dom: Dom::Frac, depth: [0, 0, 0, 0, 1, 0], ..CFG0 });
// @h prop=C02 unwind=10 rec=3 cutfmt=1 uw=same_output.0:25;exit_model.0:25;exit.0:25;push.0:17;write.0:17 timeout=3600 mem=12 tier=thorough kind=stretch what=pairwise_grid_g_k4_h2_d0_a4_c3
ostep!(og_k4_h2_d0_a4_c3, Cfg { kind: 4, h: 2, d: 0, cur: 3, area: 4, npts: 0, dom: Dom::Frac, depth: [0, 0, 0, 3, 0, 0], ..CFG0 });
// @h prop=C02 unwind=10 rec=3 cutfmt=1 uw=same_output.0:25;exit_model.0:25;exit.0:25;push.0:17;write.0:17 timeout=3600 mem=12 tier=thorough kind=stretch what=pairwise_grid_g_k3_h2_d3_a3_c4
ostep!(og_k3_h2_d3_a3_c4, Cfg { kind: 3, h: 2, d: 3, cur: 4, area: 3, npts: 0, dom: Dom::I8, depth: [0, 0, 0, 1, 3, 0], ..CFG0 });
// @h prop=C02 unwind=10 rec=3 cutfmt=1 uw=same_output.0:25;exit_model.0:25;exit.0:25;push.0:17;write.0:17 timeout=3600 mem=12 tier=thorough kind=stretch what=pairwise_grid_g_k1_h1_d0_a3_c3
ostep!(og_k1_h1_d0_a3_c3, Cfg { kind: 1, h: 1, d: 0, cur: 3, area: 3, npts: 0, dom: Dom::I8, depth: [0, 0, 0, 2, 0, 0], ..CFG0 });
// @h prop=C02 unwind=10 rec=3 cutfmt=1 uw=same_output.0:25;exit_model.0:25;exit.0:25;push.0:17;write.0:17 timeout=3600 mem=12 tier=thorough kind=stretch what=pairwise_grid_g_k1_h3_d4_a4_c4
ostep!(og_k1_h3_d4_a4_c4, Cfg { kind: 1, h: 3, d: 4, cur: 4, area: 4, npts: 0, dom: Dom::I8, depth: [0, 0, 0, 0, 3, 0], ..CFG0 });
// @h prop=C02 unwind=10 rec=2 cutfmt=1 uw=same_output.0:25;exit_model.0:25;exit.0:25;push.0:17;write.0:17 timeout=3600 mem=12 tier=thorough kind=stretch what=pairwise_grid_g_k3_h3_d0_a0_c3
ostep!(og_k3_h3_d0_a0_c3, Cfg { kind: 3, h: 3, d: 0, cur: 3, area: 0, npts: 0, dom: Dom::I8, depth: [0, 0, 0, 3, 0, 0], ..CFG0 });
// @h prop=C02 unwind=10 rec=2 cutfmt=1 uw=same_output.0:25;exit_model.0:25;exit.0:25;push.0:17;write.0:17 timeout=3600 mem=12 tier=thorough kind=stretch what=pairwise_grid_g_k4_h1_d4_a1_c4
ostep!(og_k4_h1_d4_a1_c4, Cfg { kind: 4, h: 1, d: 4, cur: 4, area: 1, npts: 1, dom: Dom::Frac, depth: [0, 0, 0, 0, 1, 0], ..CFG0 });
// @h prop=C02 unwind=10 rec=3 cutfmt=1 uw=same_output.0:25;exit_model.0:25;exit.0:25;push.0:17;write.0:17 timeout=3600 mem=12 tier=thorough kind=stretch what=pairwise_grid_g_k2_h1_d3_a4_c3
ostep!(og_k2_h1_d3_a4_c3, Cfg { kind: 2, h: 1, d: 3, cur: 3, area: 4, npts: 0, dom: Dom::Frac, depth: [0, 0, 0, 2, 0, 0], ..CFG0 });
// @h prop=C02 unwind=10 rec=2 cutfmt=1 uw=same_output.0:25;exit_model.0:25;exit.0:25;push.0:17;write.0:17 timeout=3600 mem=12 tier=thorough kind=stretch what=pairwise_grid_g_k5_h2_d4_a0_c4
ostep!(og_k5_h2_d4_a0_c4, Cfg { kind: 5, h: 2, d: 4, cur: 4, area: 0, npts: 0, dom: Dom::I8, depth: [0, 0, 0, 0, 2, 0], ..CFG0 });
// @h prop=C02 unwind=10 rec=2 cutfmt=1 uw=same_output.0:25;exit_model.0:25;exit.0:25;push.0:17;write.0:17 timeout=3600 mem=12 tier=thorough kind=stretch what=pairwise_grid_g_k2_h2_d0_a1_c4
ostep!(og_k2_h2_d0_a1_c4, Cfg { kind: 2, h: 2, d: 0, cur: 4, area: 1, npts: 1, dom: Dom::Frac, depth: [0, 0, 0, 0, 2, 0], ..CFG0 });
// @h prop=C02 unwind=10 rec=3 cutfmt=1 uw=same_output.0:25;exit_model.0:25;exit.0:25;push.0:17;write.0:17 timeout=3600 mem=12 tier=thorough kind=stretch what=pairwise_grid_g_k4_h3_d4_a3_c3
ostep!(og_k4_h3_d4_a3_c3, Cfg { kind: 4, h: 3, d: 4, cur: 3, area: 3, npts: 0, dom: Dom::Frac, depth: [0, 0, 0, 3, 1, 0], ..CFG0 });
// @h prop=C02 unwind=10 rec=2 cutfmt=1 uw=same_output.0:25;exit_model.0:25;exit.0:25;push.0:17;write.0:17 timeout=3600 mem=12 tier=thorough kind=stretch what=pairwise_grid_g_k1_h2_d3_a0_c4
ostep!(og_k1_h2_d3_a0_c4, Cfg { kind: 1, h: 2, d: 3, cur: 4, area: 0, npts: 0, dom: Dom::I8, depth: [0, 0, 0, 1, 2, 0], ..CFG0 });
// @h prop=C02 unwind=10 rec=3 cutfmt=1 uw=same_output.0:25;exit_model.0:25;exit.0:25;push.0:17;write.0:17 timeout=3600 mem=12 tier=thorough kind=stretch what=pairwise_grid_g_k3_h1_d4_a4_c3
ostep!(og_k3_h1_d4_a4_c3, Cfg { kind: 3, h: 1, d: 4, cur: 3, area: 4, npts: 0, dom: Dom::I8, depth: [0, 0, 0, 2, 1, 0], ..CFG0 });
// @h prop=C02 unwind=10 rec=3 cutfmt=1 uw=same_output.0:25;exit_model.0:25;exit.0:25;push.0:17;write.0:17 timeout=3600 mem=12 tier=thorough kind=stretch what=pairwise_grid_g_k5_h1_d0_a3_c4
ostep!(og_k5_h1_d0_a3_c4, Cfg { kind: 5, h: 1, d: 0, cur: 4, area: 3, npts: 0, dom: Dom::I8, depth: [0, 0, 0, 0, 2, 0], ..CFG0 });
// @h prop=C02 unwind=10 rec=3 cutfmt=1 uw=same_output.0:25;exit_model.0:25;exit.0:25;push.0:17;write.0:17 timeout=3600 mem=12 tier=thorough kind=stretch what=pairwise_grid_g_k2_h3_d0_a3_c4
ostep!(og_k2_h3_d0_a3_c4, Cfg { kind: 2, h: 3, d: 0, cur: 4, area: 3, npts: 0, dom: Dom::Frac, depth: [0, 0, 0, 0, 3, 0], ..CFG0 });
// @h prop=C02 unwind=10 rec=2 cutfmt=1 uw=same_output.0:25;exit_model.0:25;exit.0:25;push.0:17;write.0:17 timeout=3600 mem=12 tier=thorough kind=stretch what=pairwise_grid_g_k4_h1_d3_a0_c4
ostep!(og_k4_h1_d3_a0_c4, Cfg { kind: 4, h: 1, d: 3, cur: 4, area: 0, npts: 0, dom: Dom::Frac, depth: [0, 0, 0, 1, 1, 0], ..CFG0 });
// @h prop=C02 unwind=10 rec=3 cutfmt=1 uw=same_output.0:25;exit_model.0:25;exit.0:25;push.0:17;write.0:17 timeout=3600 mem=12 tier=thorough kind=stretch what=pairwise_grid_g_k5_h1_d3_a4_c3
ostep!(og_k5_h1_d3_a4_c3, Cfg { kind: 5, h: 1, d: 3, cur: 3, area: 4, npts: 0, dom: Dom::I8, depth: [0, 0, 0, 2, 0, 0], ..CFG0 });
// @h prop=C02 unwind=10 rec=2 cutfmt=1 uw=same_output.0:25;exit_model.0:25;exit.0:25;push.0:17;write.0:17 timeout=3600 mem=12 tier=thorough kind=stretch what=pairwise_grid_g_k1_h2_d3_a1_c3
ostep!(og_k1_h2_d3_a1_c3, Cfg { kind: 1, h: 2, d: 3, cur: 3, area: 1, npts: 1, dom: Dom::I8, depth: [0, 0, 0, 2, 0, 0], ..CFG0 });
// @h prop=C02 unwind=10 rec=2 cutfmt=1 uw=same_output.0:25;exit_model.0:25;exit.0:25;push.0:17;write.0:17 timeout=3600 mem=12 tier=thorough kind=stretch what=pairwise_grid_g_k3_h3_d0_a1_c4
ostep!(og_k3_h3_d0_a1_c4, Cfg { kind: 3, h: 3, d: 0, cur: 4, area: 1, npts: 1, dom: Dom::I8, depth: [0, 0, 0, 0, 3, 0], ..CFG0 });
