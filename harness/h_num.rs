// Harness module attached as `crate::number::num::verif_num`.
#![allow(dead_code, unused_imports, unused_variables, unused_mut)]
use super::*;
use crate::vlib::*;
use std::cmp::Ordering;

fn bn1(pos: bool, limb: u32) -> BigNum {
    BigNum::verif_raw(pos, vec![limb])
}

/// order of sa*a/b vs sc*c/d (b,d > 0) from two u64 products; no repo code involved
fn spec_cmp(sa: bool, a: u32, b: u32, sc: bool, c: u32, d: u32) -> Ordering {
    let l = (a as u64) * (d as u64);
    let r = (c as u64) * (b as u64);
    let ln = !sa && a != 0;
    let rn = !sc && c != 0;
    if ln && !rn {
        Ordering::Less
    } else if !ln && rn {
        Ordering::Greater
    } else if !ln {
        l.cmp(&r)
    } else {
        r.cmp(&l)
    }
}

// @h prop=C07 tier=quick unwind=8 timeout=300 mem=8
#[cfg_attr(kani, kani::proof)]
pub fn cmp_full() {
    let (a, b, c, d) = (any_u32(), any_u32(), any_u32(), any_u32());
    let (sa, sc) = (any_bool(), any_bool());
    assume(b != 0 && d != 0);
    assume(a != 0 || sa);
    assume(c != 0 || sc);
    let want = spec_cmp(sa, a, b, sc, c, d);
    // the only consequence of canonical form partial_cmp may rely on:
    // numerically equal => structurally equal
    assume(want != Ordering::Equal || (a == c && b == d && sa == sc));
    let x = Num { up: bn1(sa, a), down: bn1(true, b) };
    let y = Num { up: bn1(sc, c), down: bn1(true, d) };
    let got = x.partial_cmp(&y);
    assert!(got == Some(want));
    vcover!();
    std::mem::forget(x);
    std::mem::forget(y);
}
