// Harness module attached as `crate::number::num::verif_num`.
#![allow(dead_code, unused_imports, unused_variables, unused_mut)]
use super::*;
use crate::vlib::*;
use std::cmp::Ordering;

fn bn1(pos: bool, limb: u32) -> BigNum {
    BigNum::verif_raw(pos, vec![limb])
}

/// order of sa*a/b vs sc*c/d (b,d > 0) from two u64 products; no repo code involved
fn spec_cmp(sa: bool, a: u32, b: u32, sc: bool, c: u32, d: u32) -> Ordering {
    let l = (a as u64) * (d as u64);
    let r = (c as u64) * (b as u64);
    let ln = !sa && a != 0;
    let rn = !sc && c != 0;
    if ln && !rn {
        Ordering::Less
    } else if !ln && rn {
        Ordering::Greater
    } else if !ln {
        l.cmp(&r)
    } else {
        r.cmp(&l)
    }
}

// @h prop=C07 tier=quick unwind=8 timeout=3600 mem=10
#[cfg_attr(kani, kani::proof)]
pub fn cmp_full() {
    let (a, b, c, d) = (any_u32(), any_u32(), any_u32(), any_u32());
    let (sa, sc) = (any_bool(), any_bool());
    assume(b != 0 && d != 0);
    assume(a != 0 || sa);
    assume(c != 0 || sc);
    let want = spec_cmp(sa, a, b, sc, c, d);
    // the only consequence of canonical form partial_cmp may rely on:
    // numerically equal => structurally equal
    assume(want != Ordering::Equal || (a == c && b == d && sa == sc));
    let x = Num { up: bn1(sa, a), down: bn1(true, b) };
    let y = Num { up: bn1(sc, c), down: bn1(true, d) };
    let got = x.partial_cmp(&y);
    assert!(got == Some(want));
    vcover!();
    std::mem::forget(x);
    std::mem::forget(y);
}


use crate::number::big_number::verif_bn::{bn_i, bn_v, m_add, m_div, m_gcd16, m_gcd_contract, m_mul, m_new1, m_rem, m_sub, ref_gcd, GCD_LOG};

// @h prop=C07 unwind=8 timeout=2400 what=partial_cmp_is_None_iff_a_NaN_is_involved(both_NaN_encodings)
#[cfg_attr(kani, kani::proof)]
pub fn cmp_nan() {
    let (a, b, c, d) = (any_u32(), any_u32(), any_u32(), any_u32());
    let (sa, sc) = (any_bool(), any_bool());
    assume(a != 0 || sa);
    assume(c != 0 || sc);
    assume(b == 0 || d == 0);
    // NaN as the interpreter can build it: +-1 / 0
    assume(b != 0 || a == 1);
    assume(d != 0 || c == 1);
    let x = Num { up: bn1(sa, a), down: bn1(true, b) };
    let y = Num { up: bn1(sc, c), down: bn1(true, d) };
    assert!(x.partial_cmp(&y).is_none());
    assert!(y.partial_cmp(&x).is_none());
    vcover!();
    std::mem::forget((x, y));
}

// @h prop=C07 unwind=10 timeout=2400 mem=12 what=integers_with_two-limb_numerators,denominator_1,both_signs
#[cfg_attr(kani, kani::proof)]
pub fn cmp_2limb_int() {
    let a: [u32; 2] = any_u32_arr();
    let c: [u32; 2] = any_u32_arr();
    let (sa, sc) = (any_bool(), any_bool());
    assume(a[1] != 0 && c[1] != 0);
    let x = Num { up: BigNum::verif_raw(sa, a.to_vec()), down: bn1(true, 1) };
    let y = Num { up: BigNum::verif_raw(sc, c.to_vec()), down: bn1(true, 1) };
    let vx = if sa { val128(&a) as i128 } else { -(val128(&a) as i128) };
    let vy = if sc { val128(&c) as i128 } else { -(val128(&c) as i128) };
    assert!(x.partial_cmp(&y) == Some(vx.cmp(&vy)));
    vcover!();
    std::mem::forget((x, y));
}

// vacuity twin (must FAIL)
// @h prop=C07 unwind=8 timeout=2700 kind=twin
#[cfg_attr(kani, kani::proof)]
pub fn twin_cmp() {
    let (a, c) = (any_u32(), any_u32());
    let x = Num { up: bn1(true, a), down: bn1(true, 1) };
    let y = Num { up: bn1(true, c), down: bn1(true, 1) };
    let got = x.partial_cmp(&y);
    assert!(got == Some(a.cmp(&c)));
    assert!(false);
}

// ===========================================================================
// C06 - rationals exact, canonical, NaN absorbing.
// Real Num code over exact one-limb models of BigNum::{add,mul,div,gcd} (DESIGN rule 4);
// the gcd model returns the right magnitude with an ARBITRARY sign (all C05 promises).
// ===========================================================================
/// signed product from magnitudes, same multiplier shape and operand order as the one-limb
/// model of BigNum::mul (so that the solver compares identical circuits)
fn smul(x: i64, y: i64) -> i64 {
    let p = ((x.unsigned_abs() as u32) as u64) * ((y.unsigned_abs() as u32) as u64);
    if (x < 0) != (y < 0) {
        -(p as i64)
    } else {
        p as i64
    }
}
pub(crate) fn num_raw(n: i64, d: u32) -> Num {
    Num { up: bn_i(n), down: bn1(true, d) }
}
/// canonical form of a non-NaN result `r` for the unreduced value U/D (D != 0), given g = gcd(|U|,|D|):
/// r = (sign * |U|/g) / (|D|/g), denominator positive, zero numerator non-negative
fn canonical_for(r: &Num, u: i64, d: i64, g: i64) -> bool {
    if r.up.verif_limbs().len() != 1 || r.down.verif_limbs().len() != 1 {
        return false;
    }
    let (ru, rd) = (r.up.verif_limbs()[0], r.down.verif_limbs()[0]);
    let neg = (u < 0) != (d < 0) && u != 0;
    r.down.verif_pos()
        && rd != 0
        && (g as u32 as u64) * (rd as u64) == d.unsigned_abs()
        && (g as u32 as u64) * (ru as u64) == u.unsigned_abs()
        && r.up.verif_pos() == !neg
}
#[cfg(kani)]
fn logged_gcd(_a: i64, _b: i64) -> i64 {
    unsafe { GCD_LOG as i64 }
}
#[cfg(not(kani))]
fn logged_gcd(a: i64, b: i64) -> i64 {
    ref_gcd(a.unsigned_abs() as u32, b.unsigned_abs() as u32) as i64
}

// @h prop=C06 unwind=26 timeout=2400 mem=12 what=Num::add:value_a/b+c/d_exact,lowest_terms,positive_denominator;|a|,|c|<=127,b,d<=255,all_signs,common_factors
#[cfg_attr(kani, kani::proof)]
#[cfg_attr(kani, kani::stub(BigNum::add, m_add))]
#[cfg_attr(kani, kani::stub(BigNum::mul, m_mul))]
#[cfg_attr(kani, kani::stub(BigNum::div, m_div))]
#[cfg_attr(kani, kani::stub(BigNum::gcd, m_gcd16))]
pub fn num_add() {
    let (a, b, c, d) = (any_i8(), any_u8(), any_i8(), any_u8());
    assume(b != 0 && d != 0 && b < 16 && d < 16 && a > -16 && a < 16 && c > -16 && c < 16);
    let x = num_raw(a as i64, b as u32);
    let y = num_raw(c as i64, d as u32);
    let r = Num::add(&x, &y);
    let u = smul(a as i64, d as i64) + smul(b as i64, c as i64);
    let dd = smul(b as i64, d as i64);
    let g = logged_gcd(u, dd);
    assert!(canonical_for(&r, u, dd, g));
    let mut z = x.clone();
    z += &y;
    assert!(z == r);
    vcover!();
    std::mem::forget((x, y, r, z));
}

// @h prop=C06 unwind=26 timeout=2400 mem=12 what=Num::mul:value_exact,lowest_terms,positive_denominator;|a|,|c|<=127,b,d<=255
#[cfg_attr(kani, kani::proof)]
#[cfg_attr(kani, kani::stub(BigNum::add, m_add))]
#[cfg_attr(kani, kani::stub(BigNum::mul, m_mul))]
#[cfg_attr(kani, kani::stub(BigNum::div, m_div))]
#[cfg_attr(kani, kani::stub(BigNum::gcd, m_gcd16))]
pub fn num_mul() {
    let (a, b, c, d) = (any_i8(), any_u8(), any_i8(), any_u8());
    assume(b != 0 && d != 0 && b < 16 && d < 16 && a > -16 && a < 16 && c > -16 && c < 16);
    let x = num_raw(a as i64, b as u32);
    let y = num_raw(c as i64, d as u32);
    let r = Num::mul(&x, &y);
    let u = smul(a as i64, c as i64);
    let dd = smul(b as i64, d as i64);
    let g = logged_gcd(u, dd);
    assert!(canonical_for(&r, u, dd, g));
    let mut z = x.clone();
    z *= &y;
    assert!(z == r);
    vcover!();
    std::mem::forget((x, y, r, z));
}

// @h prop=C06 unwind=26 timeout=2400 mem=12 what=constructors_Num::new/from_big_num->optimize():15-bit_numerator,denominator_of_either_sign
#[cfg_attr(kani, kani::proof)]
#[cfg_attr(kani, kani::stub(BigNum::div, m_div))]
#[cfg_attr(kani, kani::stub(BigNum::gcd, m_gcd16))]
pub fn num_optimize() {
    let (n, d) = (any_i16(), any_i16());
    assume(d != 0 && n > -128 && n < 128 && d > -128 && d < 128);
    let r = Num::from_big_num(bn_i(n as i64), bn_i(d as i64));
    let g = logged_gcd(n as i64, d as i64);
    assert!(canonical_for(&r, n as i64, d as i64, g));
    vcover!();
    std::mem::forget(r);
}


// ---- contract-model variants: wide ranges, gcd replaced by its C05 contract (any common
// divisor g with exact cofactors, any sign).  Proves the formula + reduction + sign wiring.
// Inputs are drawn as (zero-extended magnitude, sign) so that the multipliers see constant-zero
// high bits.
fn sgn(pos: bool, m: u32) -> i64 {
    if pos {
        m as i64
    } else {
        -(m as i64)
    }
}
fn num_sm(pos: bool, m: u32, d: u32) -> Num {
    Num { up: bn1(pos || m == 0, m), down: bn1(true, d) }
}
macro_rules! num_wide {
    ($name:ident, $anyf:ident, $op:ident, $u:expr) => {
        #[cfg_attr(kani, kani::proof)]
        #[cfg_attr(kani, kani::stub(BigNum::add, m_add))]
        #[cfg_attr(kani, kani::stub(BigNum::mul, m_mul))]
        #[cfg_attr(kani, kani::stub(BigNum::div, m_div))]
        #[cfg_attr(kani, kani::stub(BigNum::gcd, m_gcd_contract))]
        pub fn $name() {
            let (a, b, c, d) = ($anyf() as u32, $anyf() as u32, $anyf() as u32, $anyf() as u32);
            let (sa, sc) = (any_bool(), any_bool());
            assume(b != 0 && d != 0);
            let x = num_sm(sa, a, b);
            let y = num_sm(sc, c, d);
            let r = Num::$op(&x, &y);
            let f: fn(i64, i64, i64, i64) -> i64 = $u;
            let u = f(sgn(sa, a), b as i64, sgn(sc, c), d as i64);
            let dd = smul(b as i64, d as i64);
            let g = logged_gcd(u, dd);
            assert!(canonical_for(&r, u, dd, g));
            vcover!();
            std::mem::forget((x, y, r));
        }
    };
}
// @h prop=C06 unwind=8 timeout=2400 mem=12 replay=optional stubs=BigNum::{add,mul,div}->one-limb_models,BigNum::gcd->contract_model what=Num::add_over_gcd_contract_model:8-bit_magnitudes,all_signs
num_wide!(num_add_wide8, any_u8, add, |a, b, c, d| smul(a, d) + smul(b, c));
// @h prop=C06 unwind=8 timeout=2400 mem=12 replay=optional stubs=BigNum::{add,mul,div}->one-limb_models,BigNum::gcd->contract_model what=Num::mul_over_gcd_contract_model:8-bit_magnitudes,all_signs
num_wide!(num_mul_wide8, any_u8, mul, |a, _b, c, _d| smul(a, c));
// @h prop=C06 unwind=8 timeout=3600 mem=12 tier=thorough kind=stretch replay=optional stubs=BigNum::{add,mul,div}->one-limb_models,BigNum::gcd->contract_model what=Num::add_over_gcd_contract_model:15-bit_magnitudes
num_wide!(num_add_wide15, any_u16, add, |a, b, c, d| smul(a, d) + smul(b, c));
// @h prop=C06 unwind=8 timeout=3600 mem=12 tier=thorough kind=stretch replay=optional stubs=BigNum::{add,mul,div}->one-limb_models,BigNum::gcd->contract_model what=Num::mul_over_gcd_contract_model:15-bit_magnitudes
num_wide!(num_mul_wide15, any_u16, mul, |a, _b, c, _d| smul(a, c));

// @h prop=C06 unwind=8 timeout=2400 mem=12 replay=optional what=optimize()_over_gcd_contract_model:16-bit_magnitudes,denominator_of_either_sign
#[cfg_attr(kani, kani::proof)]
#[cfg_attr(kani, kani::stub(BigNum::div, m_div))]
#[cfg_attr(kani, kani::stub(BigNum::gcd, m_gcd_contract))]
pub fn num_optimize_wide() {
    let (n, d, sn, sd) = (any_u16() as u32, any_u16() as u32, any_bool(), any_bool());
    assume(d != 0);
    let r = Num::from_big_num(bn1(sn || n == 0, n), bn1(sd, d));
    let (vn, vd) = (sgn(sn, n), sgn(sd, d));
    let g = logged_gcd(vn, vd);
    assert!(canonical_for(&r, vn, vd, g));
    vcover!();
    std::mem::forget(r);
}

// @h prop=C06 unwind=8 timeout=2700 what=flip(reciprocal;0->NaN;sign_on_numerator),neg,minus,is_pos,is_nan;one-limb_values
#[cfg_attr(kani, kani::proof)]
pub fn flip_neg_ispos() {
    let (n, d, pos) = (any_u32(), any_u32(), any_bool());
    assume(d != 0);
    assume(pos || n != 0);
    let x = Num { up: bn1(pos, n), down: bn1(true, d) };
    assert!(!x.is_nan());
    assert!(x.is_pos() == pos);
    let mut f = x.clone();
    f.flip();
    if n == 0 {
        assert!(f.is_nan());
        // zero in canonical form is 0/1; its reciprocal is the NaN value itself
        assert!(d != 1 || f == Num::nan());
        assert!(!f.is_pos());
    } else {
        // d/n with the sign moved to the numerator
        assert!(f.down.verif_pos() && f.down.verif_limbs().len() == 1 && f.down.verif_limbs()[0] == n);
        assert!(f.up.verif_pos() == pos && f.up.verif_limbs().len() == 1 && f.up.verif_limbs()[0] == d);
    }
    let m = Num::neg(&x);
    assert!(m.down == x.down && m.up.verif_limbs()[0] == n && m.up.verif_pos() == (n == 0 || !pos));
    let mut m2 = x.clone();
    m2.minus();
    assert!(m2 == m);
    let m3 = -&x;
    assert!(m3 == m);
    vcover!();
    std::mem::forget((x, f, m, m2, m3));
}

// @h prop=C06 unwind=8 timeout=2700 what=floor_of_non-negative_values:integer_path_real,fraction_path_over_modelled_div
#[cfg_attr(kani, kani::proof)]
#[cfg_attr(kani, kani::stub(BigNum::div, m_div))]
pub fn floor_nonneg() {
    let (n, d) = (any_u32(), any_u32());
    assume(d != 0);
    let x = Num { up: bn1(true, n), down: bn1(true, d) };
    let f = x.floor();
    assert!(f.verif_pos() && f.verif_limbs().len() == 1);
    let q = f.verif_limbs()[0];
    // q = floor(n/d)  <=>  q*d <= n < (q+1)*d
    assert!((q as u64) * (d as u64) <= n as u64 && (n as u64) - (q as u64) * (d as u64) < d as u64);
    vcover!();
    std::mem::forget((x, f));
}

// @h prop=C06 unwind=8 timeout=2700 what=NaN(1/0_and_-1/0)_absorbs_add/mul_on_either_side;flip/neg/minus_of_NaN_are_NaN;is_pos_false
#[cfg_attr(kani, kani::proof)]
#[cfg_attr(kani, kani::stub(BigNum::add, m_add))]
#[cfg_attr(kani, kani::stub(BigNum::mul, m_mul))]
#[cfg_attr(kani, kani::stub(BigNum::div, m_div))]
#[cfg_attr(kani, kani::stub(BigNum::gcd, m_gcd16))]
pub fn nan_absorbing() {
    let (a, b, sn, left, other_nan) = (any_i8(), any_u8(), any_bool(), any_bool(), any_bool());
    assume(a != i8::MIN);
    assume(b != 0 || a == 1 || a == -1);
    assume(other_nan == (b == 0));
    let nan = Num { up: bn1(sn, 1), down: bn1(true, 0) };
    let y = num_raw(a as i64, b as u32);
    assert!(nan.is_nan() && !nan.is_pos());
    let (s, p) = if left { (Num::add(&nan, &y), Num::mul(&nan, &y)) } else { (Num::add(&y, &nan), Num::mul(&y, &nan)) };
    assert!(s.is_nan() && p.is_nan() && s == Num::nan() && p == Num::nan());
    let mut f = nan.clone();
    f.flip();
    assert!(f.is_nan());
    let n2 = Num::neg(&nan);
    assert!(n2.is_nan() && !n2.is_pos());
    let mut n3 = nan.clone();
    n3.minus();
    assert!(n3.is_nan() && !n3.is_pos());
    vcover!();
    std::mem::forget((nan, y, s, p, f, n2, n3));
}

// vacuity twin (must FAIL)
// @h prop=C06 unwind=26 timeout=2400 mem=12 kind=twin
#[cfg_attr(kani, kani::proof)]
#[cfg_attr(kani, kani::stub(BigNum::add, m_add))]
#[cfg_attr(kani, kani::stub(BigNum::mul, m_mul))]
#[cfg_attr(kani, kani::stub(BigNum::div, m_div))]
#[cfg_attr(kani, kani::stub(BigNum::gcd, m_gcd16))]
pub fn twin_num_add() {
    let (a, b, c, d) = (any_i8(), any_u8(), any_i8(), any_u8());
    assume(b != 0 && d != 0 && a != i8::MIN && c != i8::MIN);
    let x = num_raw(a as i64, b as u32);
    let y = num_raw(c as i64, d as u32);
    let r = Num::add(&x, &y);
    assert!(!r.is_nan());
    assert!(false);
}

// ===========================================================================
// bridge between the abstract values of the step specification (crate::vspec::V) and Num, and
// the value-level models of Num::add / Num::mul used by the interpreter-level harnesses
// (C01/C02/C10/C12/C14): exact on canonical one-limb rationals, NaN absorbing.
// ===========================================================================
use crate::vspec::{self, V};

pub(crate) fn num_of_v(v: V) -> Num {
    if v.d == 0 {
        return Num::nan();
    }
    Num { up: bn_i(v.n as i64), down: bn1(true, v.d as u32) }
}
pub(crate) fn v_of_num(x: &Num) -> V {
    let (u, d) = (bn_v(&x.up), bn_v(&x.down));
    assert!(u > -(1i64 << 31) && u < (1i64 << 31) && d >= 0 && d < (1i64 << 31), "model: value leaves the abstract domain");
    if d == 0 {
        return vspec::NAN;
    }
    V { n: u as i32, d: d as i32 }
}
/// structural agreement of a Num with an abstract value (both canonical)
pub(crate) fn num_is(x: &Num, v: V) -> bool {
    if v.d == 0 {
        return x.is_nan();
    }
    x.up.verif_limbs().len() == 1
        && x.down.verif_limbs().len() == 1
        && x.down.verif_pos()
        && x.down.verif_limbs()[0] == v.d as u32
        && x.up.verif_limbs()[0] == v.n.unsigned_abs()
        && x.up.verif_pos() == (v.n >= 0)
}
pub(crate) fn m_num_add(l: &Num, r: &Num) -> Num {
    num_of_v(vspec::v_add(v_of_num(l), v_of_num(r)))
}
pub(crate) fn m_num_mul(l: &Num, r: &Num) -> Num {
    num_of_v(vspec::v_mul(v_of_num(l), v_of_num(r)))
}

// @h prop=C07 unwind=12 timeout=3600 mem=16 tier=thorough kind=stretch what=two-limb_numerators_over_one-limb_denominators,both_signs(vs_128-bit_products_of_64x32)
#[cfg_attr(kani, kani::proof)]
pub fn cmp_2limb_frac() {
    let a: [u32; 2] = any_u32_arr();
    let c: [u32; 2] = any_u32_arr();
    let (b, d) = (any_u32(), any_u32());
    let (sa, sc) = (any_bool(), any_bool());
    assume(a[1] != 0 && c[1] != 0 && b != 0 && d != 0);
    let x = Num { up: BigNum::verif_raw(sa, a.to_vec()), down: bn1(true, b) };
    let y = Num { up: BigNum::verif_raw(sc, c.to_vec()), down: bn1(true, d) };
    // |a|*d and |c|*b as sums of 32x32 partial products
    let l = ((a[0] as u64 * d as u64) as u128) + (((a[1] as u64 * d as u64) as u128) << 32);
    let r = ((c[0] as u64 * b as u64) as u128) + (((c[1] as u64 * b as u64) as u128) << 32);
    let want = if !sa && sc { Ordering::Less } else if sa && !sc { Ordering::Greater } else if sa { l.cmp(&r) } else { r.cmp(&l) };
    assume(want != Ordering::Equal || (a == c && b == d && sa == sc));
    assert!(x.partial_cmp(&y) == Some(want));
    vcover!();
    std::mem::forget((x, y));
}

// ===========================================================================
// C09 - Num::from_string (the reader a level-2 compiled program uses to restore its stacks).
// Text SHAPE concrete per harness ([-]digits[/digits]), VALUES symbolic: under Kani the text is
// a placeholder of that shape ("-12/34") and BigNum::from_string is replaced by a contract model
// that maps the digit run "12" to the symbolic value A and "34" to B (its contract - value of
// the text, ParseError otherwise - is decided by from_base_*); natively the text is the real
// decimal rendering of A and B and the real reader runs.  Decides the glue of from_string: sign
// detection and stripping, split at '/', which part goes where, reduction, sign re-applied.
// Asserted (exactly what the round trip of a canonical rendering needs, nothing more): value
// equality by cross-multiplication, positive denominator, sign on the numerator, and no growth
// (rd <= B, ru <= A) - together these force r == A/B structurally whenever gcd(A,B) = 1.
// ===========================================================================
static mut FS_A: (bool, u32) = (true, 0);
static mut FS_B: (bool, u32) = (true, 0);
static mut FS_BAD: bool = false;
static mut FS_CALLS: u32 = 0;
fn m_bn_from_string(s: String) -> Result<BigNum, crate::number::big_number::Error> {
    unsafe {
        FS_CALLS += 1;
        let neg = s.as_bytes().len() > 0 && s.as_bytes()[0] == b'-';
        let body = if neg { &s.as_bytes()[1..] } else { s.as_bytes() };
        let r = if body.len() == 2 && body[0] == b'1' && body[1] == b'2' {
            bn1(!neg || FS_A.1 == 0, FS_A.1)
        } else if body.len() == 2 && body[0] == b'3' && body[1] == b'4' {
            bn1(!neg || FS_B.1 == 0, FS_B.1)
        } else {
            FS_BAD = true;
            bn1(true, 0)
        };
        std::mem::forget(s);
        Ok(r)
    }
}
macro_rules! num_from_string {
    ($name:ident, $neg:expr, $frac:expr, $txt:expr) => {
        #[cfg_attr(kani, kani::proof)]
        #[cfg_attr(kani, kani::stub(BigNum::from_string, m_bn_from_string))]
        #[cfg_attr(kani, kani::stub(BigNum::div, m_div))]
        #[cfg_attr(kani, kani::stub(BigNum::gcd, m_gcd_contract))]
        pub fn $name() {
            let (a, b) = (any_u16() as u32, any_u16() as u32);
            let neg: bool = $neg;
            let frac: bool = $frac;
            assume(b != 0);
            assume(!neg || a != 0); // "-0" is never rendered
            unsafe {
                FS_A = (true, a);
                FS_B = (true, b);
            }
            #[cfg(kani)]
            let text = String::from($txt);
            #[cfg(not(kani))]
            let text = if frac { format!("{}{}/{}", if neg { "-" } else { "" }, a, b) } else { format!("{}{}", if neg { "-" } else { "" }, a) };
            let b = if frac { b } else { 1 };
            let r = Num::from_string(text);
            unsafe {
                assert!(!FS_BAD, "a text other than the digit runs of the two parts was handed to BigNum::from_string");
            }
            assert!(r.up.verif_limbs().len() == 1 && r.down.verif_limbs().len() == 1);
            let (ru, rd) = (r.up.verif_limbs()[0], r.down.verif_limbs()[0]);
            assert!(r.down.verif_pos() && rd != 0 && rd <= b && ru <= a);
            assert!((ru as u64) * (b as u64) == (a as u64) * (rd as u64));
            assert!(r.up.verif_pos() == !neg);
            vcover!();
            std::mem::forget(r);
        }
    };
}
// @h prop=C09 unwind=10 timeout=2400 mem=12 tier=thorough kind=stretch replay=optional stubs=BigNum::from_string->contract_model(value_of_the_digit_run),BigNum::div->one-limb_model,BigNum::gcd->contract_model what=Num::from_string("-A/B"):16-bit_A,B:value,sign,positive_denominator,no_growth
num_from_string!(num_from_string_neg_frac, true, true, "-12/34");
// @h prop=C09 unwind=10 timeout=2400 mem=12 tier=thorough kind=stretch replay=optional stubs=BigNum::from_string->contract_model(value_of_the_digit_run),BigNum::div->one-limb_model,BigNum::gcd->contract_model what=Num::from_string("A/B")
num_from_string!(num_from_string_pos_frac, false, true, "12/34");
// @h prop=C09 unwind=10 timeout=2400 mem=12 replay=optional stubs=BigNum::from_string->contract_model(value_of_the_digit_run),BigNum::div->one-limb_model,BigNum::gcd->contract_model what=Num::from_string("-A")
num_from_string!(num_from_string_neg_int, true, false, "-12");
// @h prop=C09 unwind=10 timeout=2400 mem=12 replay=optional stubs=BigNum::from_string->contract_model(value_of_the_digit_run),BigNum::div->one-limb_model,BigNum::gcd->contract_model what=Num::from_string("A")
num_from_string!(num_from_string_pos_int, false, false, "12");

// @h prop=C09 unwind=20 timeout=2400 mem=12 what=Num::from_string(NaN_text)_is_NaN,structurally_Num::nan()
#[cfg_attr(kani, kani::proof)]
pub fn num_from_string_nan() {
    let r = Num::from_string(String::from("너무 커엇..."));
    assert!(r.is_nan() && r == Num::nan());
    vcover!();
    std::mem::forget(r);
}

// @h prop=C06 unwind=20 cutfmt=1 timeout=900 mem=12 tier=thorough kind=stretch what=Display_of_both_NaN_encodings(1/0,-1/0)_is_the_fixed_NaN_text
#[cfg_attr(kani, kani::proof)]
pub fn nan_display() {
    let sn = any_bool();
    let x = Num { up: bn1(sn, 1), down: bn1(true, 0) };
    let s = format!("{}", x);
    assert!(s.as_bytes().len() == 16);
    assert!(s == "너무 커엇...");
    vcover!();
    std::mem::forget((x, s));
}
