// Common support for every harness module (attached to the scratch copy of /repo
// at the crate root as `crate::vlib`).
//
// The same harness body is compiled twice:
//   * by the Kani compiler (cfg(kani)): `any_*` are `kani::any()`, `assume` is
//     `kani::assume`, asserts are CBMC properties -> decided by the SAT solver;
//   * natively (cfg(verif_replay)): `any_*` pop the concrete values the solver
//     produced (in call order), no stub is applied -> the REAL functions run, and a
//     failing assert is a panic that the replay entry point reports.
#![allow(dead_code, unused_imports, unused_macros)]

#[cfg(not(kani))]
pub mod replay {
    use std::cell::RefCell;
    thread_local! {
        pub static VALS: RefCell<(Vec<u128>, usize)> = RefCell::new((Vec::new(), 0));
        pub static ASSUME_FAILED: RefCell<bool> = RefCell::new(false);
    }
    pub fn load(v: Vec<u128>) {
        VALS.with(|c| *c.borrow_mut() = (v, 0));
        ASSUME_FAILED.with(|c| *c.borrow_mut() = false);
    }
    pub fn next() -> u128 {
        VALS.with(|c| {
            let mut g = c.borrow_mut();
            let i = g.1;
            g.1 += 1;
            // values beyond what the solver assigned are unconstrained: 0
            g.0.get(i).copied().unwrap_or(0)
        })
    }
    pub struct AssumeFailed;
    pub fn assume_failed() -> ! {
        ASSUME_FAILED.with(|c| *c.borrow_mut() = true);
        std::panic::panic_any(AssumeFailed)
    }
    pub fn was_assume_failed() -> bool {
        ASSUME_FAILED.with(|c| *c.borrow())
    }
}

macro_rules! mk_any {
    ($f:ident, $t:ty) => {
        #[cfg(kani)]
        #[inline(never)]
        pub fn $f() -> $t {
            kani::any()
        }
        #[cfg(not(kani))]
        pub fn $f() -> $t {
            replay::next() as $t
        }
    };
}
mk_any!(any_u8, u8);
mk_any!(any_u16, u16);
mk_any!(any_u32, u32);
mk_any!(any_u64, u64);
mk_any!(any_usize, usize);
mk_any!(any_i8, i8);
mk_any!(any_i16, i16);
mk_any!(any_i32, i32);
mk_any!(any_i64, i64);
mk_any!(any_isize, isize);

#[cfg(kani)]
pub fn any_bool() -> bool {
    kani::any()
}
#[cfg(not(kani))]
pub fn any_bool() -> bool {
    replay::next() & 1 == 1
}

#[cfg(kani)]
pub fn assume(c: bool) {
    kani::assume(c)
}
#[cfg(not(kani))]
pub fn assume(c: bool) {
    if !c {
        replay::assume_failed()
    }
}

/// reachability witness: the driver requires `cover` of every harness to be SATISFIED
#[cfg(kani)]
macro_rules! vcover {
    () => {
        kani::cover!(true, "verif_reached_end")
    };
}
#[cfg(not(kani))]
macro_rules! vcover {
    () => {};
}
pub(crate) use vcover;

pub fn any_u32_arr<const N: usize>() -> [u32; N] {
    let mut a = [0u32; N];
    let mut i = 0;
    while i < N {
        a[i] = any_u32();
        i += 1;
    }
    a
}

/// little-endian limbs -> u128 (at most 4 limbs)
pub fn val128(v: &[u32]) -> u128 {
    let mut r: u128 = 0;
    let mut i = v.len();
    while i > 0 {
        i -= 1;
        r = (r << 32) | (v[i] as u128);
    }
    r
}
