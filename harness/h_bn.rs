// Harness module attached as `crate::number::big_number::verif_bn` (child module:
// sees the private kernels add_core/sub_core/mult_core/div_core/less_core and fields).
#![allow(dead_code, unused_imports, unused_variables, unused_mut)]
use super::*;
use crate::vlib::*;

// raw constructors / accessors used by every other harness module
impl BigNum {
    pub(crate) fn verif_raw(pos: bool, val: Vec<u32>) -> BigNum {
        BigNum { pos, val }
    }
    pub(crate) fn verif_limbs(&self) -> &Vec<u32> {
        &self.val
    }
    pub(crate) fn verif_pos(&self) -> bool {
        self.pos
    }
}

use std::cmp::Ordering;

// ---------------------------------------------------------------------------
// helpers (no repo code)
// ---------------------------------------------------------------------------
fn sval(pos: bool, limbs: &[u32]) -> i128 {
    let m = val128(limbs) as i128;
    if pos {
        m
    } else {
        -m
    }
}

/// representation invariant of a result: >= 1 limb, no leading zero limb, zero is non-negative
fn normalised(r: &BigNum) -> bool {
    let n = r.val.len();
    n >= 1 && (n == 1 || r.val[n - 1] != 0) && (r.pos || !(n == 1 && r.val[0] == 0))
}

/// a normalised operand with exactly N limbs (N <= 3), sign symbolic
fn any_bn<const N: usize>() -> BigNum {
    let l: [u32; N] = any_u32_arr();
    let pos = any_bool();
    if N > 1 {
        assume(l[N - 1] != 0);
    }
    assume(pos || val128(&l) != 0);
    BigNum { pos, val: l.to_vec() }
}

/// sum of primitive 32x32->64 partial products (reference multiplier; <= 2x2 / 1x3 limbs)
fn ref_mul(a: &[u32], b: &[u32]) -> u128 {
    let mut acc: u128 = 0;
    let mut i = 0;
    while i < a.len() {
        let mut j = 0;
        while j < b.len() {
            let p = (a[i] as u64) * (b[j] as u64);
            acc = acc.wrapping_add((p as u128) << (32 * (i + j)));
            j += 1;
        }
        i += 1;
    }
    acc
}

// ---------------------------------------------------------------------------
// family 1: limb kernels add_core / sub_core / less_core, n x m limbs, all limb values
// ---------------------------------------------------------------------------
macro_rules! core_add {
    ($name:ident, $n:expr, $m:expr) => {
        #[cfg_attr(kani, kani::proof)]
        pub fn $name() {
            let a: [u32; $n] = any_u32_arr();
            let b: [u32; $m] = any_u32_arr();
            let r = BigNum::add_core(&a, &b);
            assert!(r.len() == std::cmp::max($n, $m) + 1);
            assert!(val128(&r) == val128(&a) + val128(&b));
            vcover!();
        }
    };
}
macro_rules! core_sub {
    ($name:ident, $n:expr, $m:expr) => {
        #[cfg_attr(kani, kani::proof)]
        pub fn $name() {
            let a: [u32; $n] = any_u32_arr();
            let b: [u32; $m] = any_u32_arr();
            // precondition every caller (BigNum::add / BigNum::sub) establishes: operands are the
            // limb vectors of normalised numbers (no leading zero limb unless the length is 1)
            assume($n == 1 || a[$n - 1] != 0);
            assume($m == 1 || b[$m - 1] != 0);
            let (r, sw) = BigNum::sub_core(&a, &b);
            let (x, y) = (val128(&a), val128(&b));
            assert!(sw == (x < y));
            assert!(val128(&r) == if x < y { y - x } else { x - y });
            vcover!();
        }
    };
}
macro_rules! core_less {
    ($name:ident, $n:expr, $m:expr) => {
        #[cfg_attr(kani, kani::proof)]
        pub fn $name() {
            let a: [u32; $n] = any_u32_arr();
            let b: [u32; $m] = any_u32_arr();
            assert!(BigNum::less_core(&a, &b) == (val128(&a) < val128(&b)));
            assert!(BigNum::less_core(&b, &a) == (val128(&b) < val128(&a)));
            vcover!();
        }
    };
}
macro_rules! core_mult {
    ($name:ident, $n:expr, $m:expr) => {
        #[cfg_attr(kani, kani::proof)]
        pub fn $name() {
            let a: [u32; $n] = any_u32_arr();
            let b: [u32; $m] = any_u32_arr();
            let r = BigNum::mult_core(&a, &b);
            assert!(r.len() == $n + $m + 1);
            assert!(r[$n + $m] == 0);
            assert!(val128(&r[..$n + $m]) == ref_mul(&a, &b));
            vcover!();
        }
    };
}

// @h prop=C05 unwind=7 timeout=2400 what=add_core,1x1..3x3_limbs,all_limb_values,vs_u128
core_add!(core_add_1x1, 1, 1);
// @h prop=C05 unwind=7 timeout=900
core_add!(core_add_1x2, 1, 2);
// @h prop=C05 unwind=7 timeout=900
core_add!(core_add_2x1, 2, 1);
// @h prop=C05 unwind=7 timeout=900
core_add!(core_add_2x2, 2, 2);
// @h prop=C05 unwind=7 timeout=900
core_add!(core_add_1x3, 1, 3);
// @h prop=C05 unwind=7 timeout=900
core_add!(core_add_3x1, 3, 1);
// @h prop=C05 unwind=7 timeout=900
core_add!(core_add_2x3, 2, 3);
// @h prop=C05 unwind=7 timeout=900
core_add!(core_add_3x2, 3, 2);
// @h prop=C05 unwind=7 timeout=900
core_add!(core_add_3x3, 3, 3);

// @h prop=C05 unwind=7 timeout=2400 what=sub_core,|a-b|_and_swapped_flag,vs_u128
core_sub!(core_sub_1x1, 1, 1);
// @h prop=C05 unwind=7 timeout=900
core_sub!(core_sub_1x2, 1, 2);
// @h prop=C05 unwind=7 timeout=900
core_sub!(core_sub_2x1, 2, 1);
// @h prop=C05 unwind=7 timeout=900
core_sub!(core_sub_2x2, 2, 2);
// @h prop=C05 unwind=7 timeout=900
core_sub!(core_sub_1x3, 1, 3);
// @h prop=C05 unwind=7 timeout=900
core_sub!(core_sub_3x1, 3, 1);
// @h prop=C05 unwind=7 timeout=900
core_sub!(core_sub_2x3, 2, 3);
// @h prop=C05 unwind=7 timeout=900
core_sub!(core_sub_3x2, 3, 2);
// @h prop=C05 unwind=7 timeout=900
core_sub!(core_sub_3x3, 3, 3);

// @h prop=C05 unwind=7 timeout=2400 what=less_core_both_directions,vs_u128
core_less!(core_less_1x1, 1, 1);
// @h prop=C05 unwind=7 timeout=900
core_less!(core_less_1x2, 1, 2);
// @h prop=C05 unwind=7 timeout=900
core_less!(core_less_2x2, 2, 2);
// @h prop=C05 unwind=7 timeout=900
core_less!(core_less_1x3, 1, 3);
// @h prop=C05 unwind=7 timeout=900
core_less!(core_less_2x3, 2, 3);
// @h prop=C05 unwind=7 timeout=900
core_less!(core_less_3x3, 3, 3);

// family 2: schoolbook multiplication vs sum of partial products
// @h prop=C05 unwind=8 timeout=2700 what=mult_core_vs_sum_of_32x32_partial_products,top_slack_limb_zero
core_mult!(core_mult_1x1, 1, 1);
// @h prop=C05 unwind=8 timeout=900
core_mult!(core_mult_1x2, 1, 2);
// @h prop=C05 unwind=8 timeout=900
core_mult!(core_mult_2x1, 2, 1);
// @h prop=C05 unwind=8 timeout=2400 mem=12
core_mult!(core_mult_2x2, 2, 2);
// @h prop=C05 unwind=8 timeout=2700 mem=12 tier=thorough kind=stretch
core_mult!(core_mult_1x3, 1, 3);
// @h prop=C05 unwind=8 timeout=2700 mem=12 tier=thorough kind=stretch
core_mult!(core_mult_3x1, 3, 1);

// family 3: bitwise quotient search, one-limb dividend fully symbolic, constant divisor
macro_rules! core_div {
    ($name:ident, $d:expr) => {
        #[cfg_attr(kani, kani::proof)]
        pub fn $name() {
            let a: [u32; 1] = any_u32_arr();
            let b: [u32; 1] = [$d];
            let q = BigNum::div_core(&a, &b);
            assert!(q.len() == 1);
            assert!(q[0] == a[0] / $d);
            vcover!();
        }
    };
}
// @h prop=C05 unwind=34 timeout=900 mem=10 what=div_core_1x1,dividend_all_32bit_values,constant_divisor
core_div!(core_div_1x1_d3, 3u32);
// @h prop=C05 unwind=34 timeout=900 mem=10
core_div!(core_div_1x1_d10, 10u32);
// @h prop=C05 unwind=34 timeout=900 mem=10
core_div!(core_div_1x1_dmax, 0xFFFF_FFFFu32);
// @h prop=C05 unwind=34 timeout=2700 mem=12 tier=thorough
core_div!(core_div_1x1_d1, 1u32);
// @h prop=C05 unwind=34 timeout=2700 mem=12 tier=thorough
core_div!(core_div_1x1_d2, 2u32);
// @h prop=C05 unwind=34 timeout=2700 mem=12 tier=thorough
core_div!(core_div_1x1_d7, 7u32);
// @h prop=C05 unwind=34 timeout=2700 mem=12 tier=thorough
core_div!(core_div_1x1_d36, 36u32);
// @h prop=C05 unwind=34 timeout=2700 mem=12 tier=thorough
core_div!(core_div_1x1_d65536, 65536u32);
// @h prop=C05 unwind=34 timeout=2700 mem=12 tier=thorough
core_div!(core_div_1x1_d2p31, 0x8000_0000u32);

// divisor longer than the dividend: quotient is zero
// @h prop=C05 unwind=34 timeout=2700 mem=12 tier=thorough kind=stretch what=div_core_1x2,quotient_zero
#[cfg_attr(kani, kani::proof)]
pub fn core_div_1x2() {
    let a: [u32; 1] = any_u32_arr();
    let b: [u32; 2] = any_u32_arr();
    assume(b[1] != 0);
    let q = BigNum::div_core(&a, &b);
    assert!(q.len() == 2 && q[0] == 0 && q[1] == 0);
    vcover!();
}

// ---------------------------------------------------------------------------
// family 4: public operations, sign dispatch + normalisation, both signs symbolic
// ---------------------------------------------------------------------------
macro_rules! pub_addsub {
    ($name:ident, $n:expr, $m:expr) => {
        #[cfg_attr(kani, kani::proof)]
        pub fn $name() {
            let a = any_bn::<$n>();
            let b = any_bn::<$m>();
            let (x, y) = (sval(a.pos, &a.val), sval(b.pos, &b.val));
            let r = BigNum::add(&a, &b);
            assert!(normalised(&r));
            assert!(sval(r.pos, &r.val) == x + y);
            let r2 = BigNum::sub(&a, &b);
            assert!(normalised(&r2));
            assert!(sval(r2.pos, &r2.val) == x - y);
            vcover!();
            std::mem::forget((a, b, r, r2));
        }
    };
}
// @h prop=C05 unwind=8 timeout=2700 what=BigNum::add/sub,signs_symbolic,result_value_vs_i128_and_normal_form
pub_addsub!(pub_addsub_1x1, 1, 1);
// @h prop=C05 unwind=8 timeout=900
pub_addsub!(pub_addsub_1x2, 1, 2);
// @h prop=C05 unwind=8 timeout=900
pub_addsub!(pub_addsub_2x1, 2, 1);
// @h prop=C05 unwind=8 timeout=900
pub_addsub!(pub_addsub_2x2, 2, 2);
// @h prop=C05 unwind=9 timeout=2700 mem=12 tier=thorough
pub_addsub!(pub_addsub_3x3, 3, 3);
// @h prop=C05 unwind=9 timeout=2700 mem=12 tier=thorough
pub_addsub!(pub_addsub_3x1, 3, 1);

macro_rules! pub_cmp {
    ($name:ident, $n:expr, $m:expr) => {
        #[cfg_attr(kani, kani::proof)]
        pub fn $name() {
            let a = any_bn::<$n>();
            let b = any_bn::<$m>();
            let (x, y) = (sval(a.pos, &a.val), sval(b.pos, &b.val));
            assert!((a == b) == (x == y));
            assert!(a.partial_cmp(&b) == Some(x.cmp(&y)));
            assert!(b.partial_cmp(&a) == Some(y.cmp(&x)));
            let n = BigNum::neg(&a);
            assert!(normalised(&n) && sval(n.pos, &n.val) == -x);
            let mut c = a.clone();
            c.minus();
            assert!(normalised(&c) && sval(c.pos, &c.val) == -x);
            vcover!();
            std::mem::forget((a, b, n, c));
        }
    };
}
// @h prop=C05 unwind=14 timeout=2700 what=eq,partial_cmp,neg,minus,signs_symbolic
pub_cmp!(pub_cmp_1x1, 1, 1);
// @h prop=C05 unwind=14 timeout=900
pub_cmp!(pub_cmp_1x2, 1, 2);
// @h prop=C05 unwind=14 timeout=900
pub_cmp!(pub_cmp_2x2, 2, 2);
// @h prop=C05 unwind=18 timeout=2400 tier=thorough
pub_cmp!(pub_cmp_3x3, 3, 3);
// @h prop=C05 unwind=18 timeout=2400 tier=thorough
pub_cmp!(pub_cmp_2x3, 2, 3);

// @h prop=C05 unwind=8 timeout=2700 what=BigNum::mul_sign_dispatch_1x1_vs_i128
#[cfg_attr(kani, kani::proof)]
pub fn pub_mul_1x1() {
    let a = any_bn::<1>();
    let b = any_bn::<1>();
    let r = BigNum::mul(&a, &b);
    assert!(normalised(&r));
    let m = (a.val[0] as u64) * (b.val[0] as u64);
    assert!(val128(&r.val) == m as u128);
    assert!(r.pos == (m == 0 || a.pos == b.pos));
    vcover!();
    std::mem::forget((a, b, r));
}

// @h prop=C05 unwind=8 timeout=2400 mem=12 tier=thorough what=BigNum::mul_2x1_vs_partial_products
#[cfg_attr(kani, kani::proof)]
pub fn pub_mul_2x1() {
    let a = any_bn::<2>();
    let b = any_bn::<1>();
    let r = BigNum::mul(&a, &b);
    assert!(normalised(&r));
    let m = ref_mul(&a.val, &b.val);
    assert!(val128(&r.val) == m);
    assert!(r.pos == (m == 0 || a.pos == b.pos));
    vcover!();
    std::mem::forget((a, b, r));
}

macro_rules! pub_div {
    ($name:ident, $d:expr) => {
        #[cfg_attr(kani, kani::proof)]
        pub fn $name() {
            let a = any_bn::<1>();
            let b = BigNum { pos: any_bool(), val: vec![$d] };
            let r = BigNum::div(&a, &b);
            assert!(normalised(&r));
            let q = a.val[0] / $d;
            assert!(r.val.len() == 1 && r.val[0] == q);
            assert!(r.pos == (q == 0 || a.pos == b.pos));
            vcover!();
            std::mem::forget((a, b, r));
        }
    };
}
// @h prop=C05 unwind=34 timeout=2400 mem=10 what=BigNum::div_truncates_toward_zero,sign_dispatch,constant_divisor
pub_div!(pub_div_d10, 10u32);
// @h prop=C05 unwind=34 timeout=2700 mem=12 tier=thorough
pub_div!(pub_div_d7, 7u32);

// ---------------------------------------------------------------------------
// family 7: construction from a machine integer
// ---------------------------------------------------------------------------
// @h prop=C05 unwind=6 timeout=2400 what=BigNum::new(isize),all_2^64_values,value_preserved
#[cfg_attr(kani, kani::proof)]
pub fn new_isize() {
    let n = any_isize();
    let r = BigNum::new(n);
    assert!(r.val.len() >= 1 && r.val.len() <= 2);
    assert!(sval(r.pos, &r.val) == n as i128);
    assert!(normalised(&r));
    vcover!();
    std::mem::forget(r);
}

// @h prop=C05 unwind=8 timeout=2400 what=from_vec_strips_leading_zero_limbs
#[cfg_attr(kani, kani::proof)]
pub fn from_vec_3() {
    let l: [u32; 3] = any_u32_arr();
    let r = BigNum::from_vec(l.to_vec());
    assert!(normalised(&r));
    assert!(r.pos && val128(&r.val) == val128(&l));
    vcover!();
    std::mem::forget(r);
}

// vacuity twin of the family: must FAIL
// @h prop=C05 unwind=7 timeout=2400 kind=twin
#[cfg_attr(kani, kani::proof)]
pub fn twin_core_add() {
    let a: [u32; 2] = any_u32_arr();
    let b: [u32; 2] = any_u32_arr();
    let r = BigNum::add_core(&a, &b);
    assert!(val128(&r) == val128(&a) + val128(&b));
    assert!(false);
}

// ---------------------------------------------------------------------------
// contract models of the public one-limb operations (used as #[kani::stub] targets by the
// levels above: rem/gcd/text loops here, Num formulas in h_num.rs).  Exact on one-limb values,
// concrete result size, assert that operands and results stay inside one limb.
// ---------------------------------------------------------------------------
pub(crate) fn bn_i(v: i64) -> BigNum {
    assert!(v > -(1i64 << 32) && v < (1i64 << 32), "model: value leaves the one-limb domain");
    BigNum { pos: v >= 0, val: vec![v.unsigned_abs() as u32] }
}
pub(crate) fn bn_v(b: &BigNum) -> i64 {
    assert!(b.val.len() == 1, "model: operand is not a one-limb value");
    let m = b.val[0] as i64;
    if b.pos {
        m
    } else {
        -m
    }
}
pub(crate) fn m_add(a: &BigNum, b: &BigNum) -> BigNum {
    bn_i(bn_v(a) + bn_v(b))
}
pub(crate) fn m_sub(a: &BigNum, b: &BigNum) -> BigNum {
    bn_i(bn_v(a) - bn_v(b))
}
pub(crate) fn m_mul(a: &BigNum, b: &BigNum) -> BigNum {
    // 32x32 -> 64 unsigned product, sign separately (narrowest multiplier that is exact)
    let p = (a.val[0] as u64) * (b.val[0] as u64);
    assert!(a.val.len() == 1 && b.val.len() == 1, "model: operand is not a one-limb value");
    assert!(p < (1u64 << 32), "model: product leaves the one-limb domain");
    BigNum { pos: p == 0 || a.pos == b.pos, val: vec![p as u32] }
}
/// quotient and remainder of one-limb magnitudes WITHOUT a divider circuit: fresh q constrained by
/// the division lemma q*b <= a < q*b + b (one 32x32 multiplier).  Natively: plain / and %.
#[cfg(kani)]
pub(crate) fn lemma_divrem(a: u32, b: u32) -> (u32, u32) {
    assert!(b != 0, "model: division by zero");
    // the quotient is a function of (a, b): a repeated call with the operands of the previous
    // call returns the previous answer (otherwise the solver would have to prove uniqueness)
    unsafe {
        if DR_LAST.0 && DR_LAST.1 == a && DR_LAST.2 == b {
            return (DR_LAST.3, DR_LAST.4);
        }
    }
    // exact quotients a gcd model has already promised (its cofactors): reuse, do not re-derive
    unsafe {
        if DIV_TABLE[0].0 && DIV_TABLE[0].1 == a && DIV_TABLE[0].2 == b {
            return (DIV_TABLE[0].3, 0);
        }
        if DIV_TABLE[1].0 && DIV_TABLE[1].1 == a && DIV_TABLE[1].2 == b {
            return (DIV_TABLE[1].3, 0);
        }
    }
    let q: u32 = kani::any();
    let p = (q as u64) * (b as u64);
    kani::assume(p <= a as u64 && (a as u64) - p < b as u64);
    let r = ((a as u64) - p) as u32;
    unsafe {
        DR_LAST = (true, a, b, q, r);
    }
    (q, r)
}
#[cfg(kani)]
static mut DR_LAST: (bool, u32, u32, u32, u32) = (false, 0, 0, 0, 0);
#[cfg(kani)]
static mut DIV_TABLE: [(bool, u32, u32, u32); 2] = [(false, 0, 0, 0); 2];

/// gcd CONTRACT model for one-limb operands (no Euclid loop): returns some g >= 1 with
/// |a| = g*p and |b| = g*q (fresh cofactors; the two exact quotients are remembered for the
/// division model) and an ARBITRARY sign.  This over-approximates every implementation that
/// meets C05 ("magnitude is the gcd"): what is proved above it holds for the real gcd; a
/// counterexample found above it may depend on a divisor/sign the real gcd never returns and is
/// therefore only reported when it replays natively.
#[cfg(kani)]
pub(crate) fn m_gcd_contract(a: &BigNum, b: &BigNum) -> BigNum {
    assert!(a.val.len() == 1 && b.val.len() == 1, "model: operand is not a one-limb value");
    let (x, y) = (a.val[0], b.val[0]);
    let pos: bool = kani::any();
    if y == 0 {
        // gcd(x, 0) = x with the sign of x (Euclid's loop does not run); covers NaN operands
        unsafe {
            GCD_LOG = x;
            DIV_TABLE[0] = (x != 0, x, x, 1);
            DIV_TABLE[1] = (false, 0, 0, 0);
        }
        return BigNum { pos: a.pos, val: vec![x] };
    }
    let g: u32 = kani::any();
    let p: u32 = kani::any();
    let q: u32 = kani::any();
    kani::assume(g >= 1 && q >= 1);
    kani::assume((g as u64) * (p as u64) == x as u64);
    kani::assume((g as u64) * (q as u64) == y as u64);
    unsafe {
        GCD_LOG = g;
        DIV_TABLE[0] = (true, x, g, p);
        DIV_TABLE[1] = (true, y, g, q);
    }
    BigNum { pos, val: vec![g] }
}
#[cfg(not(kani))]
pub(crate) fn m_gcd_contract(a: &BigNum, b: &BigNum) -> BigNum {
    BigNum::gcd(a, b)
}
#[cfg(not(kani))]
pub(crate) fn lemma_divrem(a: u32, b: u32) -> (u32, u32) {
    (a / b, a % b)
}

/// log of the modelled div/rem calls of the current harness: (|a|, |b|, q, r)
pub(crate) static mut DR_LOG: [(u32, u32, u32, u32); 40] = [(0, 0, 0, 0); 40];
pub(crate) static mut DR_N: usize = 0;
fn dr_log(a: u32, b: u32, q: u32, r: u32) {
    unsafe {
        if DR_N < 40 {
            DR_LOG[DR_N] = (a, b, q, r);
        }
        DR_N += 1;
    }
}
pub(crate) fn m_div(a: &BigNum, b: &BigNum) -> BigNum {
    assert!(a.val.len() == 1 && b.val.len() == 1, "model: operand is not a one-limb value");
    let (q, r) = lemma_divrem(a.val[0], b.val[0]);
    dr_log(a.val[0], b.val[0], q, r);
    BigNum { pos: q == 0 || a.pos == b.pos, val: vec![q] }
}
pub(crate) fn m_rem(a: &BigNum, b: &BigNum) -> BigNum {
    assert!(a.val.len() == 1 && b.val.len() == 1, "model: operand is not a one-limb value");
    let (q, r) = lemma_divrem(a.val[0], b.val[0]);
    dr_log(a.val[0], b.val[0], q, r);
    BigNum { pos: r == 0 || a.pos, val: vec![r] }
}
pub(crate) fn ref_gcd(mut a: u32, mut b: u32) -> u32 {
    while b != 0 {
        let t = a % b;
        a = b;
        b = t;
    }
    a
}
pub(crate) fn ref_gcd16(mut a: u16, mut b: u16) -> u16 {
    while b != 0 {
        let t = a % b;
        a = b;
        b = t;
    }
    a
}
/// Euclid with truncating remainder (remainder takes the sign of the dividend, like BigNum::rem)
/// on sign + 16-bit magnitude: the signs merely swap along the chain.
pub(crate) fn ref_gcd_signed16(x: u16, sx: bool, y: u16, sy: bool) -> (u16, bool) {
    let (mut a, mut b, mut sa, mut sb) = (x, y, sx, sy);
    while b != 0 {
        let t = a % b;
        a = b;
        b = t;
        let ts = sa;
        sa = sb;
        sb = ts;
    }
    (a, sa)
}
/// exact functional model of BigNum::gcd on 16-bit operands: magnitude = gcd (what C05 states),
/// sign = the sign Euclid's chain with truncating remainders ends on.  The sign part is the
/// behaviour of the current source, not of the property; it is cross-checked against the real
/// loop by `gcd_model_valid8` (kind=model) so that counterexamples found above this model
/// replay natively.
pub(crate) fn m_gcd16(a: &BigNum, b: &BigNum) -> BigNum {
    assert!(a.val.len() == 1 && b.val.len() == 1, "model: operand is not a one-limb value");
    assert!(a.val[0] < 65536 && b.val[0] < 65536, "model: operand outside the 16-bit domain");
    let (g, pos) = ref_gcd_signed16(a.val[0] as u16, a.pos, b.val[0] as u16, b.pos);
    unsafe {
        GCD_LOG = g as u32;
    }
    BigNum { pos: pos || g == 0, val: vec![g as u32] }
}
/// magnitude returned by the last modelled gcd call
pub(crate) static mut GCD_LOG: u32 = 0;
/// one-limb model of BigNum::new for symbolic arguments (the real constructor is decided by
/// `new_isize`; its result length depends on the value, which a harness above must not inherit)
pub(crate) fn m_new1(n: isize) -> BigNum {
    assert!(n.unsigned_abs() < (1usize << 32), "model: value leaves the one-limb domain");
    BigNum { pos: n >= 0, val: vec![n.unsigned_abs() as u32] }
}

// ---------------------------------------------------------------------------
// family 5: rem formula and gcd loop (real), over modelled one-limb div/mul/sub resp. rem
// ---------------------------------------------------------------------------
// @h prop=C05 unwind=6 timeout=2700 what=BigNum::rem=a-(a/b)*b:a=q*b+r,sign_of_dividend,|r|<|b|;one-limb_operands_full_32_bit,both_signs
#[cfg_attr(kani, kani::proof)]
#[cfg_attr(kani, kani::stub(BigNum::div, m_div))]
#[cfg_attr(kani, kani::stub(BigNum::mul, m_mul))]
#[cfg_attr(kani, kani::stub(BigNum::sub, m_sub))]
pub fn rem_formula() {
    let a = any_bn::<1>();
    let b = any_bn::<1>();
    assume(b.val[0] != 0);
    let r = BigNum::rem(&a, &b);
    assert!(r.val.len() == 1);
    #[cfg(kani)]
    {
        // q = the (lemma-defined) truncated quotient the modelled div returned
        let (la, lb, q, lr) = unsafe { DR_LOG[0] };
        assert!(unsafe { DR_N } == 1 && la == a.val[0] && lb == b.val[0]);
        assert!(r.val[0] == lr && lr < b.val[0]);
        assert!((q as u64) * (b.val[0] as u64) + (r.val[0] as u64) == a.val[0] as u64);
    }
    #[cfg(not(kani))]
    assert!(r.val[0] == a.val[0] % b.val[0]);
    assert!(r.pos == (r.val[0] == 0 || a.pos));
    vcover!();
    std::mem::forget((a, b, r));
}

/// gcd harness body: the real Euclid loop of BigNum::gcd over the modelled rem.
/// Solver side: the logged rem calls must form Euclid's chain (a_{k+1}, b_{k+1}) = (b_k, r_k)
/// from the inputs down to r = 0 and the result must be the last divisor - which, by
/// gcd(a, b) = gcd(b, a mod b), is the gcd.  Native side: compared with a reference Euclid.
fn gcd_body(x: u32, y: u32, px: bool, py: bool) {
    let a = BigNum { pos: px || x == 0, val: vec![x] };
    let b = BigNum { pos: py || y == 0, val: vec![y] };
    let g = BigNum::gcd(&a, &b);
    assert!(g.val.len() == 1);
    #[cfg(kani)]
    unsafe {
        let n = DR_N;
        assert!(n < 40);
        if y == 0 {
            assert!(n == 0 && g.val[0] == x);
        } else {
            assert!(n >= 1 && DR_LOG[0].0 == x && DR_LOG[0].1 == y);
            let mut k = 1;
            while k < n {
                assert!(DR_LOG[k].0 == DR_LOG[k - 1].1 && DR_LOG[k].1 == DR_LOG[k - 1].3);
                k += 1;
            }
            assert!(DR_LOG[n - 1].3 == 0 && g.val[0] == DR_LOG[n - 1].1);
        }
    }
    #[cfg(not(kani))]
    assert!(g.val[0] == ref_gcd(x, y));
    std::mem::forget((a, b, g));
}

// @h prop=C05 unwind=14 timeout=2700 mem=12 what=BigNum::gcd_Euclid_loop_over_modelled_rem,8-bit_operands,both_signs,terminates_within_13_iterations
#[cfg_attr(kani, kani::proof)]
#[cfg_attr(kani, kani::stub(BigNum::rem, m_rem))]
pub fn gcd_loop8() {
    let (x, y, px, py) = (any_u8(), any_u8(), any_bool(), any_bool());
    gcd_body(x as u32, y as u32, px, py);
    vcover!();
}

// @h prop=C05 unwind=26 timeout=2700 mem=12 tier=thorough what=BigNum::gcd,16-bit_operands,terminates_within_25_iterations
#[cfg_attr(kani, kani::proof)]
#[cfg_attr(kani, kani::stub(BigNum::rem, m_rem))]
pub fn gcd_loop16() {
    let (x, y, px, py) = (any_u16(), any_u16(), any_bool(), any_bool());
    gcd_body(x as u32, y as u32, px, py);
    vcover!();
}

// ---------------------------------------------------------------------------
// family 6: in-place variants agree with the pure ones (structurally)
// ---------------------------------------------------------------------------
fn same(a: &BigNum, b: &BigNum) -> bool {
    if a.pos != b.pos || a.val.len() != b.val.len() {
        return false;
    }
    let mut i = 0;
    while i < a.val.len() {
        if a.val[i] != b.val[i] {
            return false;
        }
        i += 1;
    }
    true
}
macro_rules! assign_agree {
    ($name:ident, $n:expr, $m:expr, $op:tt, $opa:tt) => {
        #[cfg_attr(kani, kani::proof)]
        pub fn $name() {
            let a = any_bn::<$n>();
            let b = any_bn::<$m>();
            let r = &a $op &b;
            let mut c = a.clone();
            c $opa &b;
            assert!(same(&r, &c));
            vcover!();
            std::mem::forget((a, b, r, c));
        }
    };
}
// @h prop=C05 unwind=8 timeout=2700 what=a+=b_equals_a+b_structurally
assign_agree!(assign_add_1x1, 1, 1, +, +=);
// @h prop=C05 unwind=8 timeout=900
assign_agree!(assign_sub_1x1, 1, 1, -, -=);
// @h prop=C05 unwind=8 timeout=2400 mem=12
assign_agree!(assign_add_2x2, 2, 2, +, +=);
// @h prop=C05 unwind=8 timeout=2400 mem=12
assign_agree!(assign_sub_2x1, 2, 1, -, -=);
// @h prop=C05 unwind=8 timeout=2400 mem=12
assign_agree!(assign_mul_1x1, 1, 1, *, *=);

// div/rem in place: the underlying pure operations are stubbed by their one-limb models, the
// subject is the glue (`set_move(&*self / rhs)`)
// @h prop=C05 unwind=6 timeout=2700 what=a/=b,a%=b_equal_a/b,a%b(glue_over_modelled_div/rem)
#[cfg_attr(kani, kani::proof)]
#[cfg_attr(kani, kani::stub(BigNum::div, m_div))]
#[cfg_attr(kani, kani::stub(BigNum::rem, m_rem))]
pub fn assign_divrem_1x1() {
    let a = any_bn::<1>();
    let b = any_bn::<1>();
    assume(b.val[0] != 0);
    let q = &a / &b;
    let r = &a % &b;
    let mut c = a.clone();
    c /= &b;
    let mut d = a.clone();
    d %= &b;
    assert!(same(&q, &c) && same(&r, &d));
    #[cfg(not(kani))]
    assert!(q.val[0] == a.val[0] / b.val[0] && r.val[0] == a.val[0] % b.val[0]);
    vcover!();
    std::mem::forget((a, b, q, r, c, d));
}

// model validity (not a property check): the signed-Euclid model of gcd used by the C06 harnesses
// agrees with the real BigNum::gcd (over the modelled rem) including the sign, 8-bit operands
// @h prop=C06 unwind=14 timeout=2400 mem=12 kind=model what=validity_of_the_gcd_model(sign_included)_against_the_real_loop
#[cfg_attr(kani, kani::proof)]
#[cfg_attr(kani, kani::stub(BigNum::rem, m_rem))]
pub fn gcd_model_valid8() {
    let (x, y, px, py) = (any_u8(), any_u8(), any_bool(), any_bool());
    let a = BigNum { pos: px || x == 0, val: vec![x as u32] };
    let b = BigNum { pos: py || y == 0, val: vec![y as u32] };
    let g = BigNum::gcd(&a, &b);
    let m = m_gcd16(&a, &b);
    assert!(g.val.len() == 1 && g.val[0] == m.val[0]);
    assert!(g.val[0] == 0 || g.pos == m.pos);
    vcover!();
    std::mem::forget((a, b, g, m));
}

// ===========================================================================
// C09 - integers <-> text.  The digit loops of to_string_base / from_string_base are real; the
// arithmetic they call (`%`, `/=`, `*=`, `+=`, BigNum::new) is replaced by the one-limb models.
// ===========================================================================
fn digit_char(d: u32) -> u8 {
    if d < 10 {
        b'0' + d as u8
    } else {
        b'A' + (d - 10) as u8
    }
}

/// conventional rendering of sign/magnitude v (< base^3) in `base`, most significant digit first
fn ref_render3(pos: bool, v: u32, base: u32, out: &mut [u8; 4]) -> usize {
    let (d2, d1, d0) = (v / (base * base), (v / base) % base, v % base);
    let mut n = 0;
    if !pos {
        out[n] = b'-';
        n += 1;
    }
    if d2 != 0 {
        out[n] = digit_char(d2);
        n += 1;
    }
    if d2 != 0 || d1 != 0 {
        out[n] = digit_char(d1);
        n += 1;
    }
    out[n] = digit_char(d0);
    n + 1
}

fn to_base_body(base: u32, v: u32, pos: bool) {
    let x = BigNum { pos: pos || v == 0, val: vec![v] };
    let s = x.to_string_base(base as usize).unwrap();
    let mut want = [0u8; 4];
    let n = ref_render3(pos || v == 0, v, base, &mut want);
    let b = s.as_bytes();
    assert!(b.len() == n, "rendering has the wrong number of characters");
    let mut i = 0;
    while i < 4 {
        assert!(i >= n || b[i] == want[i], "rendering differs from the conventional one");
        i += 1;
    }
    std::mem::forget((x, s));
}
macro_rules! to_base {
    ($name:ident, $base:expr) => {
        #[cfg_attr(kani, kani::proof)]
        #[cfg_attr(kani, kani::stub(BigNum::rem, m_rem))]
        #[cfg_attr(kani, kani::stub(BigNum::div, m_div))]
        #[cfg_attr(kani, kani::stub(BigNum::new, m_new1))]
        pub fn $name() {
            let (v, pos) = (any_u32(), any_bool());
            assume(v < $base * $base);
            to_base_body($base, v, pos);
            vcover!();
        }
    };
}
// @h prop=C09 unwind=4 timeout=2700 mem=12 tier=thorough kind=stretch stubs=BigNum::rem,div,new->one-limb_models what=2_digits:to_string_base(2):all_values<2^3,both_signs:conventional_digits,leading_minus,no_leading_zero,"0"
to_base!(to_base_2, 2u32);
// @h prop=C09 unwind=4 timeout=2700 mem=12 tier=thorough kind=stretch stubs=BigNum::rem,div,new->one-limb_models what=2_digits:to_string_base(10):all_values<1000,both_signs
to_base!(to_base_10, 10u32);
// @h prop=C09 unwind=4 timeout=2700 mem=12 tier=thorough kind=stretch stubs=BigNum::rem,div,new->one-limb_models what=2_digits:to_string_base(16):all_values<4096
to_base!(to_base_16, 16u32);
// @h prop=C09 unwind=4 timeout=2700 mem=12 tier=thorough kind=stretch stubs=BigNum::rem,div,new->one-limb_models what=2_digits:to_string_base(36):all_values<46656(digits_up_to_Z)
to_base!(to_base_36, 36u32);

// @h prop=C09 unwind=6 timeout=2700 mem=12 tier=thorough kind=stretch what=to_string_base(symbolic_base_2..36):values<base^3
#[cfg_attr(kani, kani::proof)]
#[cfg_attr(kani, kani::stub(BigNum::rem, m_rem))]
#[cfg_attr(kani, kani::stub(BigNum::div, m_div))]
#[cfg_attr(kani, kani::stub(BigNum::new, m_new1))]
pub fn to_base_sym() {
    let (base, v, pos) = (any_u8() as u32, any_u32(), any_bool());
    assume(base >= 2 && base <= 36);
    assume(v < base * base * base);
    to_base_body(base, v, pos);
    vcover!();
}

// @h prop=C09 unwind=4 timeout=2700 mem=12 tier=thorough kind=stretch what=to_string_base/from_string_base_reject_base_0_and_bases_above_36
#[cfg_attr(kani, kani::proof)]
pub fn base_range() {
    let base = any_usize();
    assume(base == 0 || base > 36);
    let x = BigNum { pos: true, val: vec![5] };
    assert!(matches!(x.to_string_base(base), Err(Error::BaseSizeError(b)) if b == base));
    assert!(matches!(BigNum::from_string_base(String::new(), base), Err(Error::BaseSizeError(b)) if b == base));
    vcover!();
    std::mem::forget(x);
}

fn digit_val(c: u8) -> Option<u32> {
    if c >= b'0' && c <= b'9' {
        Some((c - b'0') as u32)
    } else if c >= b'A' && c <= b'Z' {
        Some((c - b'A') as u32 + 10)
    } else {
        None
    }
}

/// from_string_base on an ASCII text of exactly L characters after an optional '-'
fn from_base_body<const L: usize>(base: u32, neg: bool, d: [u8; L]) {
    let mut bytes: Vec<u8> = Vec::with_capacity(L + 1);
    if neg {
        bytes.push(b'-');
    }
    let mut i = 0;
    let mut bad = false;
    let mut over = false;
    let mut want: u64 = 0;
    while i < L {
        bytes.push(d[i]);
        match digit_val(d[i]) {
            Some(k) => {
                if k >= base {
                    over = true;
                }
                want = want * (base as u64) + k as u64;
            }
            None => bad = true,
        }
        i += 1;
    }
    // digits not below the base are documented as unchecked: outside the claim
    assume(bad || !over);
    // a '-' in first position IS the optional minus (covered by neg = true)
    assume(neg || d[0] != b'-');
    let s = unsafe { String::from_utf8_unchecked(bytes) };
    let r = BigNum::from_string_base(s, base as usize);
    match r {
        Ok(x) => {
            assert!(!bad, "text with a character outside 0-9A-Z was accepted");
            assert!(x.val.len() == 1 && x.val[0] as u64 == want, "value read differs from Horner's rule");
            assert!(x.pos == !neg, "sign read wrongly");
            std::mem::forget(x);
        }
        Err(e) => {
            assert!(bad && matches!(e, Error::ParseError), "well-formed text was rejected");
        }
    }
}
macro_rules! from_base {
    ($name:ident, $base:expr, $l:expr) => {
        #[cfg_attr(kani, kani::proof)]
        #[cfg_attr(kani, kani::stub(BigNum::mul, m_mul))]
        #[cfg_attr(kani, kani::stub(BigNum::add, m_add))]
        #[cfg_attr(kani, kani::stub(BigNum::new, m_new1))]
        pub fn $name() {
            let neg = any_bool();
            let mut d = [0u8; $l];
            let mut i = 0;
            while i < $l {
                d[i] = any_u8();
                assume(d[i] < 0x80);
                i += 1;
            }
            from_base_body::<$l>($base, neg, d);
            vcover!();
        }
    };
}
// @h prop=C09 unwind=7 timeout=2400 mem=12 stubs=BigNum::mul,add,new->one-limb_models what=from_string_base(10):every_ASCII_text_of_3_characters(+optional_minus):Horner_value_or_ParseError
from_base!(from_base_10_3, 10u32, 3);
// @h prop=C09 unwind=7 timeout=2400 mem=12 stubs=BigNum::mul,add,new->one-limb_models what=from_string_base(36):3_characters
from_base!(from_base_36_3, 36u32, 3);
// @h prop=C09 unwind=7 timeout=2400 mem=12 stubs=BigNum::mul,add,new->one-limb_models what=from_string_base(2):4_characters
from_base!(from_base_2_4, 2u32, 4);
// @h prop=C09 unwind=7 timeout=2400 mem=12 stubs=BigNum::mul,add,new->one-limb_models what=from_string_base(16):1_character
from_base!(from_base_16_1, 16u32, 1);

// round trip through the real text: render (real loop) then read back (real loop)
macro_rules! base_roundtrip {
    ($name:ident, $base:expr) => {
        #[cfg_attr(kani, kani::proof)]
        #[cfg_attr(kani, kani::stub(BigNum::rem, m_rem))]
        #[cfg_attr(kani, kani::stub(BigNum::div, m_div))]
        #[cfg_attr(kani, kani::stub(BigNum::mul, m_mul))]
        #[cfg_attr(kani, kani::stub(BigNum::add, m_add))]
        #[cfg_attr(kani, kani::stub(BigNum::new, m_new1))]
        pub fn $name() {
            let (v, pos) = (any_u32(), any_bool());
            assume(v < $base * $base * $base);
            let x = BigNum { pos: pos || v == 0, val: vec![v] };
            let s = x.to_string_base($base as usize).unwrap();
            let y = BigNum::from_string_base(s, $base as usize).unwrap();
            assert!(y.val.len() == 1 && y.val[0] == v && y.pos == x.pos, "reading the rendering back gives a different integer");
            vcover!();
            std::mem::forget((x, y));
        }
    };
}
// @h prop=C09 unwind=7 timeout=2700 mem=12 tier=thorough kind=stretch stubs=BigNum::rem,div,mul,add,new->one-limb_models what=render_then_read_back,base_10,values<1000,both_signs
base_roundtrip!(base_roundtrip_10, 10u32);
// @h prop=C09 unwind=7 timeout=2700 mem=12 tier=thorough kind=stretch stubs=BigNum::rem,div,mul,add,new->one-limb_models what=render_then_read_back,base_36
base_roundtrip!(base_roundtrip_36, 36u32);
// @h prop=C09 unwind=7 timeout=2700 mem=12 tier=thorough kind=stretch stubs=BigNum::rem,div,mul,add,new->one-limb_models what=render_then_read_back,base_2
base_roundtrip!(base_roundtrip_2, 2u32);

// vacuity twin (must FAIL)
// @h prop=C09 unwind=7 timeout=2400 mem=12 kind=twin
#[cfg_attr(kani, kani::proof)]
#[cfg_attr(kani, kani::stub(BigNum::mul, m_mul))]
#[cfg_attr(kani, kani::stub(BigNum::add, m_add))]
#[cfg_attr(kani, kani::stub(BigNum::new, m_new1))]
pub fn twin_from_base() {
    let neg = any_bool();
    let d = [any_u8() & 0x7F];
    from_base_body::<1>(16, neg, d);
    assert!(false);
}

// probe: one digit, non-negative
// @h prop=C09 unwind=3 uw=memcmp.0:6 timeout=2400 mem=12 what=to_string_base:one_digit,every_base_2..36
#[cfg_attr(kani, kani::proof)]
#[cfg_attr(kani, kani::stub(BigNum::rem, m_rem))]
#[cfg_attr(kani, kani::stub(BigNum::div, m_div))]
#[cfg_attr(kani, kani::stub(BigNum::new, m_new1))]
pub fn to_base_1digit() {
    let (base, v) = (any_u8() as u32, any_u32());
    assume(base >= 2 && base <= 36 && v < base && v != 0);
    let x = BigNum { pos: true, val: vec![v] };
    let s = x.to_string_base(base as usize).unwrap();
    let b = s.as_bytes();
    assert!(b.len() == 1 && b[0] == digit_char(v));
    vcover!();
    std::mem::forget((x, s));
}

// @h prop=C09 unwind=4 uw=memcmp.0:6 timeout=2700 mem=12 tier=thorough kind=stretch what=probe_to_string_base_two_digits
#[cfg_attr(kani, kani::proof)]
#[cfg_attr(kani, kani::stub(BigNum::rem, m_rem))]
#[cfg_attr(kani, kani::stub(BigNum::div, m_div))]
#[cfg_attr(kani, kani::stub(BigNum::new, m_new1))]
pub fn to_base_2digit() {
    let (base, v) = (any_u8() as u32, any_u32());
    assume(base >= 2 && base <= 36 && v >= base && v < base * base);
    let x = BigNum { pos: true, val: vec![v] };
    let s = x.to_string_base(base as usize).unwrap();
    let b = s.as_bytes();
    let (q, r) = crate::number::big_number::verif_bn::lemma_divrem(v, base);
    assert!(b.len() == 2 && b[0] == digit_char(q) && b[1] == digit_char(r));
    vcover!();
    std::mem::forget((x, s));
}

// multiplication with a ZERO limb inside an operand (the kernel skips zero limbs of lhs; carries
// must still be propagated across the gap): 2x3 / 3x2 limbs with the middle limb fixed to 0,
// all other limbs symbolic
fn ref_mul192(a: &[u32], b: &[u32], out: &mut [u32; 6]) {
    // schoolbook on 64-bit columns with explicit carries (independent of the repository code)
    let mut col = [0u128; 6];
    let mut i = 0;
    while i < a.len() {
        let mut j = 0;
        while j < b.len() {
            col[i + j] += (a[i] as u64 as u128) * (b[j] as u64 as u128);
            j += 1;
        }
        i += 1;
    }
    let mut carry: u128 = 0;
    let mut k = 0;
    while k < 6 {
        let t = col[k] + carry;
        out[k] = t as u32;
        carry = t >> 32;
        k += 1;
    }
}
// @h prop=C05 unwind=8 timeout=3600 mem=16 what=mult_core_2x3_with_rhs=[b0,0,b2](zero_middle_limb):all_other_limbs_symbolic,vs_column_sums
#[cfg_attr(kani, kani::proof)]
pub fn core_mult_2x3_zero_mid() {
    let a: [u32; 2] = any_u32_arr();
    let b = [any_u32(), 0u32, any_u32()];
    let r = BigNum::mult_core(&a, &b);
    let mut want = [0u32; 6];
    ref_mul192(&a, &b, &mut want);
    assert!(r.len() == 6);
    let mut k = 0;
    while k < 6 {
        assert!(r[k] == want[k]);
        k += 1;
    }
    vcover!();
}
// @h prop=C05 unwind=8 timeout=3600 mem=16 what=mult_core_3x2_with_lhs=[a0,0,a2](zero_middle_limb,the_kernel's_own_skip)
#[cfg_attr(kani, kani::proof)]
pub fn core_mult_3x2_zero_mid() {
    let a = [any_u32(), 0u32, any_u32()];
    let b: [u32; 2] = any_u32_arr();
    let r = BigNum::mult_core(&a, &b);
    let mut want = [0u32; 6];
    ref_mul192(&a, &b, &mut want);
    assert!(r.len() == 6);
    let mut k = 0;
    while k < 6 {
        assert!(r[k] == want[k]);
        k += 1;
    }
    vcover!();
}
