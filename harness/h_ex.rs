// Harness module attached as `crate::core::execute::verif_ex`: one interpreter step from an
// arbitrary invariant-satisfying pre-state, compared with the independent step definition
// (crate::vspec).  Shared by C01 (execute_one), C02/C10 (opt_execute, see h_opt.rs), C12, C14.
#![allow(dead_code, unused_imports, unused_variables, unused_mut, static_mut_refs)]
use super::*;
use crate::core::area::Area;
use crate::core::code::OptCode;
use crate::number::big_number::verif_bn::{m_div, m_mul, m_new1};
use crate::number::big_number::{BigNum, Error as BnError};
use crate::number::num::verif_num::{m_num_add, m_num_mul, num_is, num_of_v, v_of_num};
use crate::vlib::*;
use crate::vspec::*;

// ---------------------------------------------------------------------------
// environment: array-backed State, capturing writers, one-line reader, exit stub
// ---------------------------------------------------------------------------
pub(crate) const NCODE: usize = 3;
/// capacity of the program store (pre-loaded commands + commands appended by execute()/opt_execute())
pub(crate) const CODECAP: usize = 4;

#[derive(Clone)]
pub(crate) struct LState {
    pub st: [Vec<Num>; NSTK],
    // fixed array, not a Vec: values stored through a heap pointer are not constant-propagated by
    // the symbolic executor, and a non-constant command kind makes it explore all six commands
    pub code: [OptCode; CODECAP],
    pub ncode: usize,
    pub cur: usize,
    pub latest: Option<usize>,
    pub pts: [(u128, usize); NPTS],
    pub npts: usize,
}
impl State for LState {
    type CodeType = OptCode;
    fn get_all_stack_index(&self) -> Vec<usize> {
        vec![0, 1, 2, 3, 4, 5]
    }
    fn stack_size(&self) -> usize {
        NSTK
    }
    fn current_stack(&self) -> usize {
        self.cur
    }
    fn set_current_stack(&mut self, cur: usize) {
        self.cur = cur;
    }
    fn get_stack(&mut self, idx: usize) -> &mut Vec<Num> {
        &mut self.st[idx]
    }
    // push_stack / pop_stack: the REAL trait defaults (the NaN rule) are used
    fn get_code(&self, loc: usize) -> &OptCode {
        &self.code[loc]
    }
    fn push_code(&mut self, c: OptCode) -> usize {
        assert!(self.ncode < CODECAP, "harness: program store too small");
        let old = std::mem::replace(&mut self.code[self.ncode], c);
        std::mem::forget(old);
        self.ncode += 1;
        self.ncode - 1
    }
    fn get_all_code(&self) -> Vec<OptCode> {
        Vec::new()
    }
    fn set_point(&mut self, id: u128, loc: usize) {
        self.pts[self.npts] = (id, loc);
        self.npts += 1;
    }
    fn get_point(&self, id: u128) -> Option<usize> {
        let mut i = 0;
        while i < self.npts {
            if self.pts[i].0 == id {
                return Some(self.pts[i].1);
            }
            i += 1;
        }
        None
    }
    fn get_all_point(&self) -> Vec<(u128, usize)> {
        Vec::new()
    }
    fn set_latest_loc(&mut self, loc: usize) {
        self.latest = Some(loc);
    }
    fn get_latest_loc(&self) -> Option<usize> {
        self.latest
    }
}

pub(crate) struct CapW {
    pub buf: [u8; OBUF],
    pub len: usize,
    pub flushes: usize,
    pub is_err: bool,
}
impl CapW {
    pub fn new(is_err: bool) -> CapW {
        CapW { buf: [0; OBUF], len: 0, flushes: 0, is_err }
    }
}
// what has been written so far, visible to the exit stub
pub(crate) static mut W_OUT: ([u8; OBUF], usize, usize) = ([0; OBUF], 0, 0);
pub(crate) static mut W_ERR: ([u8; OBUF], usize, usize) = ([0; OBUF], 0, 0);
impl Write for CapW {
    fn write(&mut self, b: &[u8]) -> std::io::Result<usize> {
        let mut i = 0;
        while i < b.len() {
            assert!(self.len < OBUF, "harness: capture buffer too small");
            self.buf[self.len] = b[i];
            self.len += 1;
            i += 1;
        }
        unsafe {
            if self.is_err {
                W_ERR = (self.buf, self.len, W_ERR.2);
            } else {
                W_OUT = (self.buf, self.len, W_OUT.2);
            }
        }
        Ok(b.len())
    }
    // (overrides the default, which routes through an io::Error-carrying adapter whose drop glue is
    // expensive to execute symbolically; formatting itself still runs the real core::fmt code)
    fn write_fmt(&mut self, a: std::fmt::Arguments<'_>) -> std::io::Result<()> {
        struct Ad<'a>(&'a mut CapW);
        impl<'a> std::fmt::Write for Ad<'a> {
            fn write_str(&mut self, s: &str) -> std::fmt::Result {
                let _ = self.0.write(s.as_bytes());
                Ok(())
            }
        }
        let _ = std::fmt::write(&mut Ad(self), a);
        Ok(())
    }
    fn flush(&mut self) -> std::io::Result<()> {
        self.flushes += 1;
        unsafe {
            if self.is_err {
                W_ERR.2 += 1;
            } else {
                W_OUT.2 += 1;
            }
        }
        Ok(())
    }
}

pub(crate) struct LineReader {
    pub line: Vec<u8>,
    pub avail: bool,
    pub reads: usize,
    pub forbidden: bool,
}
impl ReadLine for LineReader {
    fn read_line_(&mut self) -> Result<String, Error> {
        assert!(!self.forbidden, "standard input was read");
        self.reads += 1;
        if self.avail {
            self.avail = false;
            Ok(unsafe { String::from_utf8_unchecked(self.line.clone()) })
        } else {
            Ok(String::new())
        }
    }
}

/// what the step specification says must have happened when the program exits
pub(crate) static mut EXPECT_EXIT: (bool, i32, [u8; OBUF], usize, [u8; OBUF], usize) = (false, 0, [0; OBUF], 0, [0; OBUF], 0);
pub(crate) static mut EXIT_FORBIDDEN: bool = false;

/// stub for std::process::exit: checks code, delivered output and flushes against the
/// specification, then ends the path
#[cfg(kani)]
pub(crate) fn exit_model(code: i32) -> ! {
    unsafe {
        assert!(!EXIT_FORBIDDEN, "the process was terminated");
        assert!(EXPECT_EXIT.0, "exit although the definition does not exit here");
        assert!(EXPECT_EXIT.1 == code, "wrong exit status");
        assert!(W_OUT.2 >= 1 && W_ERR.2 >= 1, "exit without flushing both streams");
        assert!(W_OUT.1 == EXPECT_EXIT.3 && W_ERR.1 == EXPECT_EXIT.5, "output delivered before exit differs in length");
        let mut i = 0;
        while i < OBUF {
            assert!(i >= W_OUT.1 || W_OUT.0[i] == EXPECT_EXIT.2[i], "stdout before exit differs");
            assert!(i >= W_ERR.1 || W_ERR.0[i] == EXPECT_EXIT.4[i], "stderr before exit differs");
            i += 1;
        }
    }
    kani::cover!(true, "verif_reached_end");
    kani::assume(false);
    loop {}
}

/// stub for alloc::fmt::format (only used to build error MESSAGES on the paths examined here)
pub(crate) fn fmt_model(_a: std::fmt::Arguments<'_>) -> String {
    String::new()
}

/// model of BigNum::to_string_base for the one-digit magnitudes the harness domains print
pub(crate) fn m_to_string_digit(x: &BigNum, base: usize) -> Result<String, BnError> {
    assert!(base == 10, "model: only decimal rendering is modelled here");
    let l = x.verif_limbs();
    assert!(l.len() == 1 && l[0] < 10 && x.verif_pos(), "model: value outside the one-digit domain");
    let v = vec![b'0' + l[0] as u8];
    Ok(unsafe { String::from_utf8_unchecked(v) })
}

// ---------------------------------------------------------------------------
// symbolic pre-state
// ---------------------------------------------------------------------------
#[derive(Clone, Copy, PartialEq)]
pub(crate) enum Dom {
    /// integers -128..127 or NaN
    I8,
    /// integers -9..9 or NaN (negative values can be printed through the one-digit model)
    Digit,
    /// non-negative integers 0..0x120000 (code points incl. surrogates and out of range)
    Scalar,
    /// small canonical fractions n/d, |n| <= 7, d in 1..=4, or NaN
    Frac,
    /// non-negative fractions with floor in 0..0x120000: n/d with d in {1,2,3}
    ScalarFrac,
}
pub(crate) fn any_v(dom: Dom, allow_nan: bool) -> V {
    let nan = any_bool();
    match dom {
        Dom::I8 => {
            let n = any_i8();
            if nan && allow_nan { NAN } else { vi(n as i32) }
        }
        Dom::Digit => {
            let n = any_i8();
            assume(n >= -9 && n <= 9);
            if nan && allow_nan { NAN } else { vi(n as i32) }
        }
        Dom::Scalar => {
            let n = any_u32();
            assume(n < 0x120000);
            if nan && allow_nan { NAN } else { vi(n as i32) }
        }
        Dom::Frac => {
            let n = any_i8();
            let d = any_u8();
            assume(n >= -7 && n <= 7 && d >= 1 && d <= 4);
            // lowest terms (d <= 4: only factors 2 and 3 matter)
            assume(d == 1 || !((n % 2 == 0 && d % 2 == 0) || (n % 3 == 0 && d == 3)));
            assume(n != 0 || d == 1);
            if nan && allow_nan { NAN } else { V { n: n as i32, d: d as i32 } }
        }
        Dom::ScalarFrac => {
            let n = any_u32();
            let d = any_u8();
            assume(n < 0x360000 && d >= 1 && d <= 3);
            assume(d == 1 || n % (d as u32) != 0);
            assume(d != 2 || n % 2 == 1);
            V { n: n as i32, d: d as i32 }
        }
    }
}

#[derive(Clone, Copy)]
pub(crate) struct Cfg {
    pub kind: u8,
    pub h: usize,
    pub d: usize,
    pub cur: usize,
    /// pre-state depth per stack
    pub depth: [usize; NSTK],
    /// area shape id (see mk_area)
    pub area: u8,
    /// number of pre-registered labels (ids and targets symbolic)
    pub npts: usize,
    /// is there a last jump source
    pub latest: bool,
    /// input: None = reading forbidden... Some(k) = one pending line of k characters with
    /// UTF-8 byte lengths `classes[..k]`, then end of input
    pub line: Option<usize>,
    pub classes: [u8; 4],
    pub dom: Dom,
    /// location of the command inside a NCODE-command program
    pub loc: usize,
    /// pre-registered labels point at this location or later (forward / self references only)
    pub pts_min_loc: usize,
    /// if set, every pre-registered label points at exactly this (concrete) location
    pub pts_fixed_loc: Option<usize>,
}
pub(crate) const CFG0: Cfg = Cfg {
    kind: 0, h: 1, d: 1, cur: 3, depth: [0; NSTK], area: 0, npts: 0, latest: false,
    line: None, classes: [1; 4], dom: Dom::I8, loc: 1, pts_min_loc: 0, pts_fixed_loc: None,
};

/// area shapes: both renderings (specification array form, repository tree)
pub(crate) fn mk_area(shape: u8) -> (SArea, Area) {
    fn leaf(t: u8) -> Area {
        if t == 0 { Area::Nil } else { Area::new(t) }
    }
    fn node(t: u8, l: Area, r: Area) -> Area {
        Area::Val { type_: t, left: Box::new(l), right: Box::new(r) }
    }
    let z = (0u8, NIL, NIL);
    match shape {
        // no area
        0 => (SArea { nodes: [z; 7], root: NIL }, Area::Nil),
        // a heart (label / jump)
        1 => (SArea { nodes: [(4, NIL, NIL), z, z, z, z, z, z], root: 0 }, leaf(4)),
        // the white heart (return to the last jump source)
        2 => (SArea { nodes: [(13, NIL, NIL), z, z, z, z, z, z], root: 0 }, leaf(13)),
        // [h2] ? [_]
        3 => (SArea { nodes: [(0, 1, NIL), (2, NIL, NIL), z, z, z, z, z], root: 0 }, node(0, leaf(2), Area::Nil)),
        // [h2] ! [h3]
        4 => (SArea { nodes: [(1, 1, 2), (2, NIL, NIL), (3, NIL, NIL), z, z, z, z], root: 0 }, node(1, leaf(2), leaf(3))),
        // [[h2]![h3]] ? [h5]
        5 => (
            SArea { nodes: [(0, 1, 4), (1, 2, 3), (2, NIL, NIL), (3, NIL, NIL), (5, NIL, NIL), z, z], root: 0 },
            node(0, node(1, leaf(2), leaf(3)), leaf(5)),
        ),
        // [_] ? [[h2]?[13]]   (right nesting, white heart as a leaf)
        6 => (
            SArea { nodes: [(0, NIL, 1), (0, 2, 3), (2, NIL, NIL), (13, NIL, NIL), z, z, z], root: 0 },
            node(0, Area::Nil, node(0, leaf(2), leaf(13))),
        ),
        // [_] ! [[h12] ! [_]]
        _ => (
            SArea { nodes: [(1, NIL, 1), (1, 2, NIL), (12, NIL, NIL), z, z, z, z], root: 0 },
            node(1, Area::Nil, node(1, leaf(12), Area::Nil)),
        ),
    }
}

pub(crate) struct Pre {
    pub s: SState,
    pub l: LState,
    pub code: SCode,
    pub rd: LineReader,
}

/// builds the symbolic pre-state (specification form and repository form) for a grid point
pub(crate) fn mk_pre(c: &Cfg) -> Pre {
    let mut s = SState {
        st: [[NAN; DEPTH]; NSTK],
        len: c.depth,
        cur: c.cur,
        out: [0; OBUF],
        olen: 0,
        err: [0; OBUF],
        elen: 0,
        pts: [(0, 0); NPTS],
        npts: c.npts,
        latest: None,
        line: [0; 4],
        line_len: 0,
        line_avail: false,
        reads: 0,
    };
    // stacks: every value symbolic; invariant: NaN is never the bottom element
    let mut i = 0;
    while i < NSTK {
        let mut j = 0;
        while j < c.depth[i] {
            // stack 0 holds code points of buffered input
            let dom = if i == 0 { Dom::Scalar } else { c.dom };
            s.st[i][j] = any_v(dom, j > 0 && i != 0);
            j += 1;
        }
        i += 1;
    }
    // area count and label table
    let ac = any_u8() as usize;
    let mut k = 0;
    while k < c.npts {
        let t = any_u8();
        let a = any_u8();
        let loc = match c.pts_fixed_loc {
            Some(x) => x,
            None => any_u8() as usize,
        };
        assume(t >= 2 && t <= 12 && loc < 8 && loc >= c.pts_min_loc);
        s.pts[k] = (((a as u128) << 4) + t as u128, loc);
        k += 1;
    }
    if c.npts == 2 {
        assume(s.pts[0].0 != s.pts[1].0);
    }
    if c.latest {
        let l = any_u8() as usize;
        assume(l < 8);
        s.latest = Some(l);
    }
    // input line
    let mut bytes: Vec<u8> = Vec::new();
    if let Some(k) = c.line {
        let present = any_bool(); // a pending line, or end of input
        let mut i = 0;
        while i < k {
            let cp = any_u32();
            match c.classes[i] {
                1 => {
                    assume(cp < 0x80);
                    bytes.push(cp as u8);
                }
                2 => {
                    assume(cp >= 0x80 && cp < 0x800);
                    bytes.push(0xC0 | (cp >> 6) as u8);
                    bytes.push(0x80 | (cp & 0x3F) as u8);
                }
                3 => {
                    assume(cp >= 0x800 && cp < 0x10000 && !(cp >= 0xD800 && cp < 0xE000));
                    bytes.push(0xE0 | (cp >> 12) as u8);
                    bytes.push(0x80 | ((cp >> 6) & 0x3F) as u8);
                    bytes.push(0x80 | (cp & 0x3F) as u8);
                }
                _ => {
                    assume(cp >= 0x10000 && cp < 0x110000);
                    bytes.push(0xF0 | (cp >> 18) as u8);
                    bytes.push(0x80 | ((cp >> 12) & 0x3F) as u8);
                    bytes.push(0x80 | ((cp >> 6) & 0x3F) as u8);
                    bytes.push(0x80 | (cp & 0x3F) as u8);
                }
            }
            s.line[i] = cp;
            i += 1;
        }
        s.line_len = k;
        s.line_avail = present;
    }
    let (sa, ra) = mk_area(c.area);
    let code = SCode { kind: c.kind, h: c.h, d: c.d, area: sa, ac };
    // repository form
    // capacity reserved up front: a Vec that grows on some paths only gets a symbolic capacity, and
    // re-allocation with a symbolic size is beyond the symbolic executor (spurious failures)
    let mut st: [Vec<Num>; NSTK] = [Vec::with_capacity(DEPTH), Vec::with_capacity(DEPTH), Vec::with_capacity(DEPTH), Vec::with_capacity(DEPTH), Vec::with_capacity(DEPTH), Vec::with_capacity(DEPTH)];
    let mut i = 0;
    while i < NSTK {
        let mut j = 0;
        while j < c.depth[i] {
            st[i].push(num_of_v(s.st[i][j]));
            j += 1;
        }
        i += 1;
    }
    let mk = |i: usize, ra: &mut Option<Area>| {
        if i == c.loc {
            // (moved, never cloned: the recursive clone of a tree is expensive to execute symbolically)
            OptCode::new(c.kind, c.h, c.d, ac, ra.take().unwrap())
        } else {
            OptCode::new(0, 1, 1, 1, Area::Nil)
        }
    };
    let mut ra = Some(ra);
    let codes = [mk(0, &mut ra), mk(1, &mut ra), mk(2, &mut ra), mk(3, &mut ra)];
    std::mem::forget(ra);
    let l = LState { st, code: codes, ncode: NCODE, cur: c.cur, latest: s.latest, pts: s.pts, npts: c.npts };
    let rd = LineReader { line: bytes, avail: s.line_avail, reads: 0, forbidden: c.line.is_none() };
    Pre { s, l, code, rd }
}

/// post-state of the repository equals the specification's
pub(crate) fn same_state(l: &LState, s: &SState) -> bool {
    if l.cur != s.cur || l.latest != s.latest || l.npts != s.npts {
        return false;
    }
    let mut k = 0;
    while k < NPTS {
        if k < s.npts && l.pts[k] != s.pts[k] {
            return false;
        }
        k += 1;
    }
    let mut i = 0;
    while i < NSTK {
        if l.st[i].len() != s.len[i] {
            return false;
        }
        let mut j = 0;
        while j < DEPTH {
            if j < s.len[i] {
                match l.st[i].get(j) {
                    Some(x) => {
                        if !num_is(x, s.st[i][j]) {
                            return false;
                        }
                    }
                    None => return false,
                }
            }
            j += 1;
        }
        // invariant: NaN never at the bottom
        if s.len[i] > 0 && s.st[i][0].is_nan() {
            return false;
        }
        i += 1;
    }
    true
}
pub(crate) fn same_output(w: &CapW, buf: &[u8; OBUF], len: usize) -> bool {
    if w.len != len {
        return false;
    }
    let mut i = 0;
    while i < OBUF {
        if i < len && w.buf[i] != buf[i] {
            return false;
        }
        i += 1;
    }
    true
}

pub(crate) fn set_expect(end: End, s: &SState) {
    unsafe {
        W_OUT = ([0; OBUF], 0, 0);
        W_ERR = ([0; OBUF], 0, 0);
        match end {
            End::Exit(c) => EXPECT_EXIT = (true, c, s.out, s.olen, s.err, s.elen),
            _ => EXPECT_EXIT = (false, 0, [0; OBUF], 0, [0; OBUF], 0),
        }
    }
    #[cfg(not(kani))]
    if let End::Exit(c) = end {
        // native replay: the real process::exit ends the process; announce what is expected
        println!("REPLAY-RESULT: EXPECTED-EXIT {}", c);
        use std::io::Write as _;
        std::io::stdout().flush().unwrap();
    }
}

/// C01 body: one execute_one step vs one spec_step
pub(crate) fn step_check(c: &Cfg) {
    let Pre { mut s, l, code, mut rd } = mk_pre(c);
    let want = spec_step(&mut s, &code, c.loc);
    set_expect(want, &s);
    let mut out = CapW::new(false);
    let mut err = CapW::new(true);
    let got = execute_one(&mut rd, &mut out, &mut err, l, c.loc);
    match got {
        Ok((post, next)) => {
            assert!(want == End::Next(next), "next command differs from the definition (or exit/encoding error expected)");
            assert!(same_state(&post, &s), "stacks / selected stack / labels / last jump source differ");
            assert!(same_output(&out, &s.out, s.olen), "standard output differs");
            assert!(same_output(&err, &s.err, s.elen), "standard error differs");
            assert!(rd.reads == s.reads, "number of input reads differs");
            std::mem::forget(post);
        }
        Err(e) => {
            assert!(want == End::EncodingError, "error although the definition has no encoding error here");
            std::mem::forget(e);
        }
    }
    vcover!();
    std::mem::forget((rd, out, err));
}

macro_rules! step {
    ($name:ident, $cfg:expr) => {
        #[cfg_attr(kani, kani::proof)]
        #[cfg_attr(kani, kani::stub(Num::add, m_num_add))]
        #[cfg_attr(kani, kani::stub(Num::mul, m_num_mul))]
        #[cfg_attr(kani, kani::stub(BigNum::mul, m_mul))]
        #[cfg_attr(kani, kani::stub(BigNum::div, m_div))]
        #[cfg_attr(kani, kani::stub(BigNum::new, m_new1))]
        #[cfg_attr(kani, kani::stub(BigNum::to_string_base, m_to_string_digit))]
        #[cfg_attr(kani, kani::stub(std::process::exit, exit_model))]
        #[cfg_attr(kani, kani::stub(std::fmt::format, fmt_model))]
        pub fn $name() {
            let c: Cfg = $cfg;
            step_check(&c);
        }
    };
}
const STEP_STUBS: &str = "Num::add,Num::mul->value models; BigNum::mul,div,new->one-limb models; BigNum::to_string_base->one-digit model; process::exit->checking stub";

// ---- C01 grid (generated by the table in notes; every value symbolic, structure concrete) ----
// @h prop=C01 unwind=10 rec=2 cutfmt=1 uw=same_output.0:25;exit_model.0:25;exit.0:25;push.0:17;write.0:17 timeout=3600 what=형:push_h*d_to_selected_stack_3
step!(s_push_3, Cfg { kind: 0, h: 2, d: 3, depth: [0, 0, 0, 1, 0, 0], ..CFG0 });
// @h prop=C01 unwind=10 rec=2 cutfmt=1 uw=same_output.0:25;exit_model.0:25;exit.0:25;push.0:17;write.0:17 timeout=3600 what=형_with_zero_dots_pushes_0_to_empty_stack
step!(s_push_empty, Cfg { kind: 0, h: 3, d: 0, depth: [0, 0, 0, 0, 0, 0], ..CFG0 });
// @h prop=C01 unwind=10 rec=2 cutfmt=1 uw=same_output.0:25;exit_model.0:25;exit.0:25;push.0:17;write.0:17 timeout=3600 what=항:1_operand_3->4
step!(s_add1, Cfg { kind: 1, h: 1, d: 4, depth: [0, 0, 0, 2, 0, 0], ..CFG0 });
// @h prop=C01 unwind=10 rec=2 cutfmt=1 uw=same_output.0:25;exit_model.0:25;exit.0:25;push.0:17;write.0:17 timeout=3600 what=항:2_operands_3->4
step!(s_add2_3to4, Cfg { kind: 1, h: 2, d: 4, depth: [0, 0, 0, 3, 1, 0], ..CFG0 });
// @h prop=C01 unwind=10 rec=2 cutfmt=1 uw=same_output.0:25;exit_model.0:25;exit.0:25;push.0:17;write.0:17 timeout=3600 what=항:3_operands,target=selected_stack
step!(s_add3_same, Cfg { kind: 1, h: 3, d: 3, depth: [0, 0, 0, 3, 0, 0], ..CFG0 });
// @h prop=C01 unwind=10 rec=2 cutfmt=1 uw=same_output.0:25;exit_model.0:25;exit.0:25;push.0:17;write.0:17 timeout=3600 what=항:more_operands_than_elements->NaN_sum
step!(s_add_underflow, Cfg { kind: 1, h: 2, d: 4, depth: [0, 0, 0, 1, 1, 0], ..CFG0 });
// @h prop=C01 unwind=10 rec=2 cutfmt=1 uw=same_output.0:25;exit_model.0:25;exit.0:25;push.0:17;write.0:17 timeout=3600 what=항:pop_from_empty->NaN,not_pushed_to_empty_target
step!(s_add_empty, Cfg { kind: 1, h: 1, d: 4, depth: [0, 0, 0, 0, 0, 0], ..CFG0 });
// @h prop=C01 unwind=10 rec=2 cutfmt=1 uw=same_output.0:25;exit_model.0:25;exit.0:25;push.0:17;write.0:17 timeout=3600 what=핫:2_operands_3->5
step!(s_mul2, Cfg { kind: 2, h: 2, d: 5, depth: [0, 0, 0, 2, 0, 1], ..CFG0 });
// @h prop=C01 unwind=10 rec=2 cutfmt=1 uw=same_output.0:25;exit_model.0:25;exit.0:25;push.0:17;write.0:17 timeout=3600 what=핫:3_operands_same_stack
step!(s_mul3, Cfg { kind: 2, h: 3, d: 3, depth: [0, 0, 0, 3, 0, 0], ..CFG0 });
// @h prop=C01 unwind=10 rec=2 cutfmt=1 uw=same_output.0:25;exit_model.0:25;exit.0:25;push.0:17;write.0:17 timeout=3600 what=흣:1_operand
step!(s_neg1, Cfg { kind: 3, h: 1, d: 4, depth: [0, 0, 0, 2, 0, 0], ..CFG0 });
// @h prop=C01 unwind=10 rec=2 cutfmt=1 uw=same_output.0:25;exit_model.0:25;exit.0:25;push.0:17;write.0:17 timeout=3600 what=흣:2_operands,restored_in_original_order
step!(s_neg2_3to4, Cfg { kind: 3, h: 2, d: 4, depth: [0, 0, 0, 2, 0, 0], ..CFG0 });
// @h prop=C01 unwind=10 rec=2 cutfmt=1 uw=same_output.0:25;exit_model.0:25;exit.0:25;push.0:17;write.0:17 timeout=3600 tier=thorough kind=stretch what=흣:3_operands,target=selected_stack
step!(s_neg3_same, Cfg { kind: 3, h: 3, d: 3, depth: [0, 0, 0, 3, 0, 0], ..CFG0 });
// @h prop=C01 unwind=10 rec=2 cutfmt=1 uw=same_output.0:25;exit_model.0:25;exit.0:25;push.0:17;write.0:17 timeout=3600 what=흣:pops_beyond_the_bottom(NaN_not_restored_onto_empty)
step!(s_neg_underflow, Cfg { kind: 3, h: 2, d: 4, depth: [0, 0, 0, 1, 0, 0], ..CFG0 });
// @h prop=C01 unwind=10 rec=2 cutfmt=1 uw=same_output.0:25;exit_model.0:25;exit.0:25;push.0:17;write.0:17 timeout=3600 what=흡:1_operand,small_fractions
step!(s_inv1, Cfg { kind: 4, h: 1, d: 4, dom: Dom::Frac, depth: [0, 0, 0, 2, 0, 0], ..CFG0 });
// @h prop=C01 unwind=10 rec=2 cutfmt=1 uw=same_output.0:25;exit_model.0:25;exit.0:25;push.0:17;write.0:17 timeout=2700 what=흡:2_operands,small_fractions,restored_in_order
step!(s_inv2, Cfg { kind: 4, h: 2, d: 4, dom: Dom::Frac, depth: [0, 0, 0, 2, 0, 0], ..CFG0 });
// @h prop=C01 unwind=10 rec=2 cutfmt=1 uw=same_output.0:25;exit_model.0:25;exit.0:25;push.0:17;write.0:17 timeout=3600 what=흑:copy_top_once_to_4,select_4
step!(s_dup1, Cfg { kind: 5, h: 1, d: 4, depth: [0, 0, 0, 2, 1, 0], ..CFG0 });
// @h prop=C01 unwind=10 rec=2 cutfmt=1 uw=same_output.0:25;exit_model.0:25;exit.0:25;push.0:17;write.0:17 timeout=3600 what=흑:copy_twice_to_5,select_5
step!(s_dup2, Cfg { kind: 5, h: 2, d: 5, depth: [0, 0, 0, 1, 0, 0], ..CFG0 });
// @h prop=C01 unwind=10 rec=2 cutfmt=1 uw=same_output.0:25;exit_model.0:25;exit.0:25;push.0:17;write.0:17 timeout=3600 what=흑:empty_selected_stack(NaN)
step!(s_dup_empty, Cfg { kind: 5, h: 1, d: 4, depth: [0, 0, 0, 0, 1, 0], ..CFG0 });
// @h prop=C01 unwind=10 rec=2 cutfmt=1 uw=same_output.0:25;exit_model.0:25;exit.0:25;push.0:17;write.0:17 timeout=3600 tier=thorough kind=stretch what=흑:target=selected_stack
step!(s_dup_same, Cfg { kind: 5, h: 2, d: 3, depth: [0, 0, 0, 1, 0, 0], ..CFG0 });
// @h prop=C01 unwind=10 rec=2 cutfmt=1 uw=same_output.0:25;exit_model.0:25;exit.0:25;push.0:17;write.0:17 timeout=3600 what=heart_not_registered:registers_label,continues
step!(s_heart_new, Cfg { kind: 0, h: 1, d: 2, area: 1, depth: [0, 0, 0, 1, 0, 0], ..CFG0 });
// @h prop=C01 unwind=10 rec=2 cutfmt=1 uw=same_output.0:25;exit_model.0:25;exit.0:25;push.0:17;write.0:17 timeout=3600 what=heart_with_1_symbolic_label_entry:jump_iff_registered_elsewhere,last_jump_source_set
step!(s_heart_tab1, Cfg { kind: 0, h: 1, d: 2, area: 1, npts: 1, depth: [0, 0, 0, 1, 0, 0], ..CFG0 });
// @h prop=C01 unwind=10 rec=2 cutfmt=1 uw=same_output.0:25;exit_model.0:25;exit.0:25;push.0:17;write.0:17 timeout=3600 what=heart_with_2_symbolic_label_entries
step!(s_heart_tab2, Cfg { kind: 0, h: 1, d: 2, area: 1, npts: 2, latest: true, depth: [0, 0, 0, 1, 0, 0], ..CFG0 });
// @h prop=C01 unwind=10 rec=2 cutfmt=1 uw=same_output.0:25;exit_model.0:25;exit.0:25;push.0:17;write.0:17 timeout=3600 what=white_heart_without_last_jump_source:continues
step!(s_white_none, Cfg { kind: 0, h: 1, d: 2, area: 2, depth: [0, 0, 0, 1, 0, 0], ..CFG0 });
// @h prop=C01 unwind=10 rec=2 cutfmt=1 uw=same_output.0:25;exit_model.0:25;exit.0:25;push.0:17;write.0:17 timeout=3600 what=white_heart:returns_to_last_jump_source
step!(s_white_some, Cfg { kind: 0, h: 1, d: 2, area: 2, latest: true, npts: 1, depth: [0, 0, 0, 1, 0, 0], ..CFG0 });
// @h prop=C01 unwind=10 rec=3 cutfmt=1 uw=same_output.0:25;exit_model.0:25;exit.0:25;push.0:17;write.0:17 timeout=3600 what=?:left_iff_popped<count(symbolic_count)
step!(s_q_3, Cfg { kind: 0, h: 1, d: 2, area: 3, npts: 1, depth: [0, 0, 0, 2, 0, 0], ..CFG0 });
// @h prop=C01 unwind=10 rec=3 cutfmt=1 uw=same_output.0:25;exit_model.0:25;exit.0:25;push.0:17;write.0:17 timeout=3600 what=!:left_iff_popped==count
step!(s_e_3, Cfg { kind: 1, h: 1, d: 4, area: 4, npts: 2, depth: [0, 0, 0, 3, 0, 0], ..CFG0 });
// @h prop=C01 unwind=10 rec=4 cutfmt=1 uw=same_output.0:25;exit_model.0:25;exit.0:25;push.0:17;write.0:17 timeout=3600 what=[a!b]?c:two_pops
step!(s_qe_3, Cfg { kind: 0, h: 1, d: 2, area: 5, npts: 1, depth: [0, 0, 0, 3, 0, 0], ..CFG0 });
// @h prop=C01 unwind=10 rec=4 cutfmt=1 uw=same_output.0:25;exit_model.0:25;exit.0:25;push.0:17;write.0:17 timeout=3600 what=_?[a?white]:right_nesting,pops_until_leaf
step!(s_qq_3, Cfg { kind: 0, h: 1, d: 2, area: 6, npts: 1, latest: true, depth: [0, 0, 0, 2, 0, 0], ..CFG0 });
// @h prop=C01 unwind=10 rec=4 cutfmt=1 uw=same_output.0:25;exit_model.0:25;exit.0:25;push.0:17;write.0:17 timeout=3600 what=_![h!_]:area_pops_from_empty(NaN->right)
step!(s_ee_empty, Cfg { kind: 0, h: 1, d: 2, area: 7, depth: [0, 0, 0, 0, 0, 0], ..CFG0 });
// @h prop=C01 unwind=10 rec=3 cutfmt=1 uw=same_output.0:25;exit_model.0:25;exit.0:25;push.0:17;write.0:17 timeout=3600 what=?_against_fractions
step!(s_q_frac, Cfg { kind: 0, h: 1, d: 2, area: 3, dom: Dom::Frac, depth: [0, 0, 0, 2, 0, 0], ..CFG0 });
// @h prop=C01 unwind=10 rec=3 cutfmt=1 uw=same_output.0:25;exit_model.0:25;exit.0:25;push.0:17;write.0:17 timeout=3600 what=흑_then_?:area_pops_from_the_NEWLY_selected_stack
step!(s_dup_area, Cfg { kind: 5, h: 1, d: 4, area: 3, depth: [0, 0, 0, 2, 2, 0], ..CFG0 });
// @h prop=C01 unwind=10 rec=2 cutfmt=num uw=same_output.0:25;exit_model.0:25;exit.0:25;push.0:17;write.0:17 timeout=3600 what=항_to_stdout:code_point_0..0x120000->UTF-8_or_encoding_error
step!(s_out_char, Cfg { kind: 1, h: 1, d: 1, dom: Dom::Scalar, depth: [0, 0, 0, 2, 0, 0], ..CFG0 });
// @h prop=C01 unwind=10 rec=2 cutfmt=num uw=same_output.0:25;exit_model.0:25;exit.0:25;push.0:17;write.0:17 timeout=3600 what=항_to_stderr:same_on_the_error_stream
step!(s_err_char, Cfg { kind: 1, h: 1, d: 2, dom: Dom::Scalar, depth: [0, 0, 0, 2, 0, 0], ..CFG0 });
// @h prop=C01 unwind=10 rec=2 cutfmt=num uw=same_output.0:25;exit_model.0:25;exit.0:25;push.0:17;write.0:17 timeout=3600 what=항_to_stdout:non-negative_fraction->code_point_of_floor
step!(s_out_frac, Cfg { kind: 1, h: 1, d: 1, dom: Dom::ScalarFrac, depth: [0, 0, 0, 1, 0, 0], ..CFG0 });
// @h prop=C01 unwind=10 rec=2 cutfmt=num uw=same_output.0:25;exit_model.0:25;exit.0:25;push.0:17;write.0:17 timeout=3600 what=항_to_stdout:negative->text_of_negated_value,NaN->NaN_text
step!(s_out_neg, Cfg { kind: 1, h: 1, d: 1, dom: Dom::Digit, depth: [0, 0, 0, 2, 0, 0], ..CFG0 });
// @h prop=C01 unwind=10 rec=2 cutfmt=1 uw=same_output.0:25;exit_model.0:25;exit.0:25;push.0:17;write.0:17 timeout=3600 what=형_with_stdout_selected:prints_chr(h*d)
step!(s_push_out, Cfg { kind: 0, h: 13, d: 5, cur: 1, depth: [0, 0, 0, 0, 0, 0], ..CFG0 });
// @h prop=C01 unwind=10 rec=2 cutfmt=num uw=same_output.0:25;exit_model.0:25;exit.0:25;push.0:17;write.0:17 timeout=3600 what=흣_to_stderr:negated_value_text_or_char
step!(s_neg_out, Cfg { kind: 3, h: 1, d: 2, dom: Dom::Digit, depth: [0, 0, 0, 1, 0, 0], ..CFG0 });
// @h prop=C01 unwind=10 rec=2 cutfmt=num uw=same_output.0:25;exit_model.0:25;exit.0:25;push.0:17;write.0:17 timeout=3600 tier=thorough kind=stretch what=흑_to_stdout_twice,then_stdout_selected
step!(s_dup_out, Cfg { kind: 5, h: 2, d: 1, dom: Dom::Scalar, depth: [0, 0, 0, 1, 0, 0], ..CFG0 });
// @h prop=C01 unwind=10 rec=2 cutfmt=1 uw=same_output.0:25;exit_model.0:25;exit.0:25;push.0:17;write.0:17 timeout=3600 what=항_with_stdout_selected:exit_0,both_streams_flushed
step!(s_exit0_add, Cfg { kind: 1, h: 1, d: 3, cur: 1, depth: [0, 0, 0, 1, 0, 0], ..CFG0 });
// @h prop=C01 unwind=10 rec=2 cutfmt=1 uw=same_output.0:25;exit_model.0:25;exit.0:25;push.0:17;write.0:17 timeout=3600 what=핫_with_stderr_selected:exit_1
step!(s_exit1_mul, Cfg { kind: 2, h: 2, d: 3, cur: 2, depth: [0, 0, 0, 1, 0, 0], ..CFG0 });
// @h prop=C01 unwind=10 rec=2 cutfmt=1 uw=same_output.0:25;exit_model.0:25;exit.0:25;push.0:17;write.0:17 timeout=3600 what=흣_with_stdout_selected:exit_0_before_anything_is_restored
step!(s_exit_neg, Cfg { kind: 3, h: 2, d: 3, cur: 1, depth: [0, 0, 0, 1, 0, 0], ..CFG0 });
// @h prop=C01 unwind=10 rec=2 cutfmt=1 uw=same_output.0:25;exit_model.0:25;exit.0:25;push.0:17;write.0:17 timeout=3600 what=흑_with_stderr_selected:exit_1
step!(s_exit_dup, Cfg { kind: 5, h: 1, d: 3, cur: 2, depth: [0, 0, 0, 1, 0, 0], ..CFG0 });
// @h prop=C01 unwind=10 rec=3 cutfmt=num uw=same_output.0:25;exit_model.0:25;exit.0:25;push.0:17;write.0:17 timeout=3600 what=형?_with_stdout_selected:prints,then_area_pop_exits_0_with_the_output_delivered
step!(s_exit_area, Cfg { kind: 0, h: 8, d: 8, cur: 1, area: 3, depth: [0, 0, 0, 1, 0, 0], ..CFG0 });
// @h prop=C01 unwind=10 rec=3 cutfmt=num uw=same_output.0:25;exit_model.0:25;exit.0:25;push.0:17;write.0:17 timeout=3600 what=흑_selects_stderr,area_pop_exits_1(after_printing_the_copies)
step!(s_exit_dup_area, Cfg { kind: 5, h: 1, d: 2, area: 4, dom: Dom::Digit, depth: [0, 0, 0, 2, 0, 0], ..CFG0 });
// @h prop=C01 unwind=10 rec=2 cutfmt=1 uw=same_output.0:25;exit_model.0:25;exit.0:25;push.0:17;write.0:17 timeout=3600 what=항_with_stdin_selected:line_of_2_chars(1-byte,3-byte)_or_EOF;first_char_popped,rest_buffered
step!(s_in_13, Cfg { kind: 1, h: 1, d: 3, cur: 0, line: Some(2), classes: [1, 3, 1, 1], depth: [0, 0, 0, 1, 0, 0], ..CFG0 });
// @h prop=C01 unwind=10 rec=2 cutfmt=1 uw=same_output.0:25;exit_model.0:25;exit.0:25;push.0:17;write.0:17 timeout=3600 what=stdin:4-byte_and_2-byte_characters
step!(s_in_42, Cfg { kind: 1, h: 1, d: 3, cur: 0, line: Some(2), classes: [4, 2, 1, 1], depth: [0, 0, 0, 0, 0, 0], ..CFG0 });
// @h prop=C01 unwind=10 rec=2 cutfmt=1 uw=same_output.0:25;exit_model.0:25;exit.0:25;push.0:17;write.0:17 timeout=3600 tier=thorough kind=stretch what=항_2_operands_from_stdin:second_pop_reads_again->EOF->NaN
step!(s_in_two_pops, Cfg { kind: 1, h: 2, d: 3, cur: 0, line: Some(1), classes: [3, 1, 1, 1], depth: [0, 0, 0, 0, 0, 0], ..CFG0 });
// @h prop=C01 unwind=10 rec=2 cutfmt=1 uw=same_output.0:25;exit_model.0:25;exit.0:25;push.0:17;write.0:17 timeout=3600 what=stdin_buffer_not_empty:no_read
step!(s_in_buffered, Cfg { kind: 1, h: 1, d: 3, cur: 0, line: Some(1), classes: [1, 1, 1, 1], depth: [1, 0, 0, 0, 0, 0], ..CFG0 });
// @h prop=C01 unwind=10 rec=3 cutfmt=num uw=same_output.0:25;exit_model.0:25;exit.0:25;push.0:17;write.0:17 timeout=3600 tier=thorough kind=stretch what=흑_selects_stdin,?_area_pops_a_character(or_NaN_at_EOF)
step!(s_in_area, Cfg { kind: 5, h: 1, d: 0, area: 3, line: Some(1), classes: [2, 1, 1, 1], depth: [0, 0, 0, 1, 0, 0], ..CFG0 });
// @h prop=C01 unwind=10 rec=2 cutfmt=num uw=same_output.0:25;exit_model.0:25;exit.0:25;push.0:17;write.0:17 timeout=3600 tier=thorough kind=stretch what=copy_one_character_stdin->stdout
step!(s_in_copy, Cfg { kind: 1, h: 1, d: 1, cur: 0, line: Some(1), classes: [3, 1, 1, 1], depth: [0, 0, 0, 0, 0, 0], ..CFG0 });

// vacuity twin (must FAIL)
// @h prop=C01 unwind=10 rec=2 cutfmt=1 uw=same_output.0:25;exit_model.0:25;exit.0:25;push.0:17;write.0:17 timeout=3600 kind=twin
#[cfg_attr(kani, kani::proof)]
#[cfg_attr(kani, kani::stub(Num::add, m_num_add))]
#[cfg_attr(kani, kani::stub(Num::mul, m_num_mul))]
#[cfg_attr(kani, kani::stub(BigNum::mul, m_mul))]
#[cfg_attr(kani, kani::stub(BigNum::div, m_div))]
#[cfg_attr(kani, kani::stub(BigNum::new, m_new1))]
#[cfg_attr(kani, kani::stub(std::process::exit, exit_model))]
#[cfg_attr(kani, kani::stub(std::fmt::format, fmt_model))]
pub fn twin_step() {
    let c = Cfg { kind: 1, h: 2, d: 4, depth: [0, 0, 0, 3, 1, 0], ..CFG0 };
    step_check(&c);
    assert!(false);
}

// ===========================================================================
// C07 (second half): branch selection of area::calc - `?` left iff popped < count, `!` left iff
// popped == count, NaN always right - for the area shapes of mk_area, popped values symbolic
// (small fractions or NaN), count symbolic.  Real Num::partial_cmp over the one-limb BigNum::mul.
// ===========================================================================
fn calc_check(shape: u8, dom: Dom) {
    let (sa, ra) = mk_area(shape);
    let ac = any_u8() as usize;
    let vals = [any_v(dom, true), any_v(dom, true), any_v(dom, true)];
    let mut idx = 0usize;
    let got = crate::core::area::calc(&ra, ac, || {
        let v = if idx < 3 { num_of_v(vals[idx]) } else { Num::nan() };
        idx += 1;
        Ok(v)
    });
    // definition
    let mut node = sa.root;
    let mut k = 0usize;
    let mut want: u8 = 0;
    loop {
        if node == NIL {
            want = 0;
            break;
        }
        let (t, l, r) = sa.nodes[node];
        if t <= 1 {
            let v = if k < 3 { vals[k] } else { NAN };
            k += 1;
            let c = v_cmp_int(v, ac as i32);
            node = if (t == 0 && c == -1) || (t == 1 && c == 0) { l } else { r };
        } else {
            want = t;
            break;
        }
    }
    match got {
        Ok(t) => {
            assert!(t == want, "area evaluation took a different branch than the definition");
            assert!(idx == k, "area evaluation popped a different number of values");
        }
        Err(_) => assert!(false, "area evaluation failed"),
    }
    vcover!();
    std::mem::forget(ra);
}
macro_rules! calc {
    ($name:ident, $shape:expr, $dom:expr) => {
        #[cfg_attr(kani, kani::proof)]
        #[cfg_attr(kani, kani::stub(BigNum::mul, m_mul))]
        #[cfg_attr(kani, kani::stub(BigNum::new, m_new1))]
        #[cfg_attr(kani, kani::stub(std::fmt::format, fmt_model))]
        pub fn $name() {
            calc_check($shape, $dom);
        }
    };
}
// @h prop=C07 unwind=8 rec=3 timeout=2400 mem=12 stubs=BigNum::mul,new->one-limb_models what=area::calc_on_[h]?[_]:left_iff_popped<count;integers_-128..127_or_NaN,count_0..255
calc!(calc_q_int, 3, Dom::I8);
// @h prop=C07 unwind=8 rec=3 timeout=2400 mem=12 stubs=BigNum::mul,new->one-limb_models what=area::calc_on_[h]![h]:left_iff_popped==count
calc!(calc_e_int, 4, Dom::I8);
// @h prop=C07 unwind=8 rec=3 timeout=2700 mem=12 stubs=BigNum::mul,new->one-limb_models what=area::calc_on_[h]?[_]_with_small_fractions
calc!(calc_q_frac, 3, Dom::Frac);
// @h prop=C07 unwind=8 rec=4 timeout=2700 mem=12 stubs=BigNum::mul,new->one-limb_models what=area::calc_on_[[h]![h]]?[h]:nested,two_pops
calc!(calc_qe_int, 5, Dom::I8);
// @h prop=C07 unwind=8 rec=4 timeout=2700 mem=12 stubs=BigNum::mul,new->one-limb_models what=area::calc_on__?[[h]?[white]]:right_nesting
calc!(calc_qq_int, 6, Dom::I8);
// @h prop=C07 unwind=8 rec=4 timeout=2700 mem=12 tier=thorough stubs=BigNum::mul,new->one-limb_models what=area::calc_on__![[h]!_]_with_fractions
calc!(calc_ee_frac, 7, Dom::Frac);

// ===========================================================================
// C14 - Unicode passes through: the two I/O kernels over WHOLE UTF-8 length classes.
// Input: a pending line of one character of the class (or end of input): the popped value is
// its code point, NaN exactly at end of input.  Output: every non-negative value below
// 0x120000: UTF-8 of the scalar value, or the encoding error for surrogates / >= 0x110000.
// ===========================================================================
// @h prop=C14 unwind=10 rec=2 cutfmt=1 uw=same_output.0:25;exit_model.0:25;exit.0:25;push.0:17;write.0:17 timeout=3600 what=stdin_pop:1-byte_character(U+0000..U+007F,incl._line_break)_or_EOF->code_point_or_NaN
step!(u_in_1, Cfg { kind: 1, h: 1, d: 3, cur: 0, line: Some(1), classes: [1, 1, 1, 1], depth: [0, 0, 0, 0, 0, 0], ..CFG0 });
// @h prop=C14 unwind=10 rec=2 cutfmt=1 uw=same_output.0:25;exit_model.0:25;exit.0:25;push.0:17;write.0:17 timeout=3600 what=stdin_pop:2-byte_character(U+0080..U+07FF)_or_EOF
step!(u_in_2, Cfg { kind: 1, h: 1, d: 3, cur: 0, line: Some(1), classes: [2, 1, 1, 1], depth: [0, 0, 0, 0, 0, 0], ..CFG0 });
// @h prop=C14 unwind=10 rec=2 cutfmt=1 uw=same_output.0:25;exit_model.0:25;exit.0:25;push.0:17;write.0:17 timeout=3600 what=stdin_pop:3-byte_character(U+0800..U+FFFF_without_surrogates)_or_EOF
step!(u_in_3, Cfg { kind: 1, h: 1, d: 3, cur: 0, line: Some(1), classes: [3, 1, 1, 1], depth: [0, 0, 0, 0, 0, 0], ..CFG0 });
// @h prop=C14 unwind=10 rec=2 cutfmt=1 uw=same_output.0:25;exit_model.0:25;exit.0:25;push.0:17;write.0:17 timeout=3600 what=stdin_pop:4-byte_character(U+10000..U+10FFFF)_or_EOF
step!(u_in_4, Cfg { kind: 1, h: 1, d: 3, cur: 0, line: Some(1), classes: [4, 1, 1, 1], depth: [0, 0, 0, 0, 0, 0], ..CFG0 });
// @h prop=C14 unwind=10 rec=2 cutfmt=1 uw=same_output.0:25;exit_model.0:25;exit.0:25;push.0:17;write.0:17 timeout=2700 what=stdin_pop:line_of_3_characters(2-,4-,1-byte):first_popped,others_buffered_in_order
step!(u_in_241, Cfg { kind: 1, h: 1, d: 3, cur: 0, line: Some(3), classes: [2, 4, 1, 1], depth: [0, 0, 0, 0, 0, 0], ..CFG0 });
// @h prop=C14 unwind=10 rec=2 cutfmt=num uw=same_output.0:25;exit_model.0:25;exit.0:25;push.0:17;write.0:17 timeout=2700 what=stdout_push:every_value_0..0x120000->UTF-8_of_the_scalar_value_or_encoding_error
step!(u_out, Cfg { kind: 1, h: 1, d: 1, dom: Dom::Scalar, depth: [0, 0, 0, 1, 0, 0], ..CFG0 });
// @h prop=C14 unwind=10 rec=2 cutfmt=num uw=same_output.0:25;exit_model.0:25;exit.0:25;push.0:17;write.0:17 timeout=2700 what=stderr_push:same_on_the_error_stream
step!(u_err, Cfg { kind: 1, h: 1, d: 2, dom: Dom::Scalar, depth: [0, 0, 0, 1, 0, 0], ..CFG0 });
// @h prop=C14 unwind=10 rec=2 cutfmt=num uw=same_output.0:25;exit_model.0:25;exit.0:25;push.0:17;write.0:17 timeout=2700 tier=thorough kind=stretch what=one-character_copy_stdin->stdout_in_a_single_command(3-byte_class)
step!(u_copy_3, Cfg { kind: 1, h: 1, d: 1, cur: 0, line: Some(1), classes: [3, 1, 1, 1], depth: [0, 0, 0, 0, 0, 0], ..CFG0 });
// @h prop=C14 unwind=10 rec=2 cutfmt=1 uw=same_output.0:25;exit_model.0:25;exit.0:25;push.0:17;write.0:17 timeout=3600 kind=twin
#[cfg_attr(kani, kani::proof)]
#[cfg_attr(kani, kani::stub(Num::add, m_num_add))]
#[cfg_attr(kani, kani::stub(Num::mul, m_num_mul))]
#[cfg_attr(kani, kani::stub(BigNum::mul, m_mul))]
#[cfg_attr(kani, kani::stub(BigNum::div, m_div))]
#[cfg_attr(kani, kani::stub(BigNum::new, m_new1))]
#[cfg_attr(kani, kani::stub(std::process::exit, exit_model))]
#[cfg_attr(kani, kani::stub(std::fmt::format, fmt_model))]
pub fn twin_unicode() {
    let c = Cfg { kind: 1, h: 1, d: 3, cur: 0, line: Some(1), classes: [3, 1, 1, 1], depth: [0, 0, 0, 0, 0, 0], ..CFG0 };
    step_check(&c);
    assert!(false);
}

// ===========================================================================
// C12 (library level) - execute(): "append one command, run until control passes the newest
// command" is what the interactive interpreter does per entered command.  One appended command
// from the symbolic pre-state equals one step of the definition at the new location, and the
// command log grows by exactly that command.
// ===========================================================================
pub(crate) fn exec_check(c: &Cfg) {
    let cc = Cfg { loc: NCODE, ..*c };
    let Pre { mut s, mut l, code, mut rd } = mk_pre(&cc);
    let cmd = std::mem::replace(&mut l.code[NCODE], OptCode::new(0, 1, 1, 1, Area::Nil));
    // labels of the pre-state may only point at or beyond the new command (a backward jump would
    // re-run earlier commands: covered by the step harnesses, unbounded here)
    let mut k = 0;
    while k < NPTS {
        if k < s.npts {
            assume(s.pts[k].1 >= NCODE);
        }
        k += 1;
    }
    if let Some(x) = s.latest {
        assume(x >= NCODE);
    }
    let want = spec_step(&mut s, &code, NCODE);
    set_expect(want, &s);
    let mut out = CapW::new(false);
    let mut err = CapW::new(true);
    let got = execute(&mut rd, &mut out, &mut err, l, &cmd);
    match got {
        Ok(post) => {
            assert!(matches!(want, End::Next(_)), "returned although the definition exits or fails here");
            assert!(post.ncode == NCODE + 1, "command log did not grow by exactly one command");
            assert!(same_state(&post, &s), "state after the entered command differs from the definition");
            assert!(same_output(&out, &s.out, s.olen) && same_output(&err, &s.err, s.elen), "output of the entered command differs");
            std::mem::forget(post);
        }
        Err(e) => {
            assert!(want == End::EncodingError);
            std::mem::forget(e);
        }
    }
    vcover!();
    std::mem::forget((rd, out, err, cmd));
}
macro_rules! xstep {
    ($name:ident, $cfg:expr) => {
        #[cfg_attr(kani, kani::proof)]
        #[cfg_attr(kani, kani::stub(Num::add, m_num_add))]
        #[cfg_attr(kani, kani::stub(Num::mul, m_num_mul))]
        #[cfg_attr(kani, kani::stub(BigNum::mul, m_mul))]
        #[cfg_attr(kani, kani::stub(BigNum::div, m_div))]
        #[cfg_attr(kani, kani::stub(BigNum::new, m_new1))]
        #[cfg_attr(kani, kani::stub(BigNum::to_string_base, m_to_string_digit))]
        #[cfg_attr(kani, kani::stub(std::process::exit, exit_model))]
        #[cfg_attr(kani, kani::stub(std::fmt::format, fmt_model))]
        pub fn $name() {
            let c: Cfg = $cfg;
            exec_check(&c);
        }
    };
}
// @h prop=C12 unwind=10 rec=2 cutfmt=1 uw=execute.0:2;same_output.0:25;exit_model.0:25;exit.0:25;push.0:17;write.0:17 timeout=3600 what=execute():entered_형_command
xstep!(x_push, Cfg { kind: 0, h: 2, d: 3, depth: [0, 0, 0, 1, 0, 0], ..CFG0 });
// @h prop=C12 unwind=10 rec=2 cutfmt=1 uw=execute.0:2;same_output.0:25;exit_model.0:25;exit.0:25;push.0:17;write.0:17 timeout=1800 mem=12 tier=thorough kind=stretch what=execute():entered_항_with_a_heart:label_registered_at_the_new_position
xstep!(x_add_heart, Cfg { kind: 1, h: 2, d: 4, area: 1, npts: 0, depth: [0, 0, 0, 2, 0, 0], ..CFG0 });
// @h prop=C12 unwind=10 rec=2 cutfmt=1 uw=execute.0:2;same_output.0:25;exit_model.0:25;exit.0:25;push.0:17;write.0:17 timeout=1800 mem=12 tier=thorough kind=stretch what=execute():entered_흑_with_white_heart_and_no_jump_source
xstep!(x_dup_white, Cfg { kind: 5, h: 1, d: 4, area: 2, latest: false, depth: [0, 0, 0, 1, 0, 0], ..CFG0 });
// @h prop=C12 unwind=10 rec=2 cutfmt=1 uw=execute.0:2;same_output.0:25;exit_model.0:25;exit.0:25;push.0:17;write.0:17 timeout=3600 what=execute():entered_command_that_exits_through_stack_1
xstep!(x_exit, Cfg { kind: 1, h: 1, d: 3, cur: 1, depth: [0, 0, 0, 1, 0, 0], ..CFG0 });
// @h prop=C12 unwind=10 rec=2 cutfmt=1 uw=execute.0:2;same_output.0:25;exit_model.0:25;exit.0:25;push.0:17;write.0:17 timeout=3600 kind=twin
#[cfg_attr(kani, kani::proof)]
#[cfg_attr(kani, kani::stub(Num::add, m_num_add))]
#[cfg_attr(kani, kani::stub(Num::mul, m_num_mul))]
#[cfg_attr(kani, kani::stub(BigNum::mul, m_mul))]
#[cfg_attr(kani, kani::stub(BigNum::div, m_div))]
#[cfg_attr(kani, kani::stub(BigNum::new, m_new1))]
#[cfg_attr(kani, kani::stub(std::process::exit, exit_model))]
#[cfg_attr(kani, kani::stub(std::fmt::format, fmt_model))]
pub fn twin_exec() {
    let c = Cfg { kind: 0, h: 2, d: 3, depth: [0, 0, 0, 1, 0, 0], ..CFG0 };
    exec_check(&c);
    assert!(false);
}

// ---- additional grid points (thorough tier) ----
// @h prop=C01 unwind=10 rec=2 cutfmt=1 uw=same_output.0:25;exit_model.0:25;exit.0:25;push.0:17;write.0:17 timeout=2700 what=항_with_stack_4_selected,target_5
step!(t_add2_c4, Cfg { kind: 1, h: 2, d: 5, cur: 4, depth: [0, 0, 0, 1, 2, 1], ..CFG0 });
// @h prop=C01 unwind=10 rec=2 cutfmt=1 uw=same_output.0:25;exit_model.0:25;exit.0:25;push.0:17;write.0:17 timeout=2700 what=흣_with_stack_5_selected,target_3
step!(t_neg2_c5, Cfg { kind: 3, h: 2, d: 3, cur: 5, depth: [0, 0, 0, 1, 0, 2], ..CFG0 });
// @h prop=C01 unwind=10 rec=2 cutfmt=1 uw=same_output.0:25;exit_model.0:25;exit.0:25;push.0:17;write.0:17 timeout=2700 what=항_target_0:value_stored_on_the_input_buffer(no_output,no_read)
step!(t_add_to0, Cfg { kind: 1, h: 1, d: 0, depth: [1, 0, 0, 1, 0, 0], ..CFG0 });
// @h prop=C01 unwind=10 rec=2 cutfmt=1 uw=same_output.0:25;exit_model.0:25;exit.0:25;push.0:17;write.0:17 timeout=2700 what=흑_to_stack_0:copies_pushed_onto_the_input_buffer,stdin_selected
step!(t_dup_to0, Cfg { kind: 5, h: 2, d: 0, depth: [0, 0, 0, 1, 0, 0], ..CFG0 });
// @h prop=C01 unwind=10 rec=2 cutfmt=1 uw=same_output.0:25;exit_model.0:25;exit.0:25;push.0:17;write.0:17 timeout=2700 what=핫_with_small_fractions
step!(t_mul2_frac, Cfg { kind: 2, h: 2, d: 4, dom: Dom::Frac, depth: [0, 0, 0, 2, 0, 0], ..CFG0 });
// @h prop=C01 unwind=10 rec=2 cutfmt=1 uw=same_output.0:25;exit_model.0:25;exit.0:25;push.0:17;write.0:17 timeout=2700 what=항_with_small_fractions
step!(t_add2_frac, Cfg { kind: 1, h: 2, d: 4, dom: Dom::Frac, depth: [0, 0, 0, 2, 0, 0], ..CFG0 });
// @h prop=C01 unwind=10 rec=2 cutfmt=1 uw=same_output.0:25;exit_model.0:25;exit.0:25;push.0:17;write.0:17 timeout=2700 what=흡_of_an_integer(0->NaN,negatives)
step!(t_inv1_int, Cfg { kind: 4, h: 1, d: 4, depth: [0, 0, 0, 1, 0, 0], ..CFG0 });
// @h prop=C01 unwind=10 rec=2 cutfmt=1 uw=same_output.0:25;exit_model.0:25;exit.0:25;push.0:17;write.0:17 timeout=2700 what=형_with_heart,stack_4_selected,2_label_entries
step!(t_push_heart_c4, Cfg { kind: 0, h: 3, d: 2, cur: 4, area: 1, npts: 2, depth: [0, 0, 0, 0, 1, 0], ..CFG0 });
// @h prop=C01 unwind=10 rec=3 cutfmt=1 uw=same_output.0:25;exit_model.0:25;exit.0:25;push.0:17;write.0:17 timeout=2700 what=항_then_!_on_the_emptied_stack(NaN->right)
step!(t_e_empty, Cfg { kind: 1, h: 1, d: 4, area: 4, depth: [0, 0, 0, 1, 0, 0], ..CFG0 });
// @h prop=C01 unwind=10 rec=4 cutfmt=1 uw=same_output.0:25;exit_model.0:25;exit.0:25;push.0:17;write.0:17 timeout=2700 tier=thorough what=_?[h?white]_three_deep_stack
step!(t_q_white, Cfg { kind: 0, h: 2, d: 2, area: 6, latest: true, depth: [0, 0, 0, 3, 0, 0], ..CFG0 });
// @h prop=C14 unwind=10 rec=2 cutfmt=1 uw=same_output.0:25;exit_model.0:25;exit.0:25;push.0:17;write.0:17 timeout=2700 what=line_of_two_3-byte_characters
step!(u_in_33, Cfg { kind: 1, h: 1, d: 3, cur: 0, line: Some(2), classes: [3, 3, 1, 1], depth: [0, 0, 0, 0, 0, 0], ..CFG0 });
// @h prop=C14 unwind=10 rec=2 cutfmt=1 uw=same_output.0:25;exit_model.0:25;exit.0:25;push.0:17;write.0:17 timeout=2700 what=line_of_1-byte+4-byte
step!(u_in_14, Cfg { kind: 1, h: 1, d: 3, cur: 0, line: Some(2), classes: [1, 4, 1, 1], depth: [0, 0, 0, 0, 0, 0], ..CFG0 });
// @h prop=C14 unwind=10 rec=2 cutfmt=1 uw=same_output.0:25;exit_model.0:25;exit.0:25;push.0:17;write.0:17 timeout=2700 what=two_buffered_characters:popped_in_order,no_read
step!(u_in_2_buffered, Cfg { kind: 1, h: 1, d: 3, cur: 0, line: Some(1), classes: [2, 1, 1, 1], depth: [2, 0, 0, 0, 0, 0], ..CFG0 });
// @h prop=C14 unwind=10 rec=2 cutfmt=num uw=same_output.0:25;exit_model.0:25;exit.0:25;push.0:17;write.0:17 timeout=2700 tier=thorough what=non-negative_fraction_to_stdout:floor_is_the_code_point
step!(u_out_frac, Cfg { kind: 1, h: 1, d: 1, dom: Dom::ScalarFrac, depth: [0, 0, 0, 1, 0, 0], ..CFG0 });

// ===========================================================================
// C06 (printing clause): Display of a rational - NaN prints the fixed NaN text (both NaN
// encodings), an integer prints without a denominator, a fraction as "n/d" with the sign in
// front.  One-digit magnitudes (the decimal rendering of the parts is modelled by the one-digit
// model; multi-digit rendering is C09's subject).
// ===========================================================================
fn display_check(shape: u8) {
    use std::io::Write as _;
    let (n, d, neg) = (any_u8(), any_u8(), any_bool());
    assume(n < 10 && d < 10 && d >= 2 && n >= 1);
    let mut w = CapW::new(false);
    let x = match shape {
        0 => num_of_v(V { n: if neg { -1 } else { 1 }, d: 0 }),
        1 => num_of_v(vi(n as i32)),
        _ => num_of_v(V { n: n as i32, d: d as i32 }),
    };
    write!(w, "{}", x).unwrap();
    match shape {
        0 => {
            const T: [u8; 16] = [0xEB, 0x84, 0x88, 0xEB, 0xAC, 0xB4, 0x20, 0xEC, 0xBB, 0xA4, 0xEC, 0x97, 0x87, 0x2E, 0x2E, 0x2E];
            assert!(w.len == 16);
            let mut i = 0;
            while i < 16 {
                assert!(w.buf[i] == T[i], "NaN does not print as the fixed NaN text");
                i += 1;
            }
        }
        1 => assert!(w.len == 1 && w.buf[0] == b'0' + n, "an integer is not printed as its digits alone"),
        _ => assert!(w.len == 3 && w.buf[0] == b'0' + n && w.buf[1] == b'/' && w.buf[2] == b'0' + d, "a fraction is not printed as n/d"),
    }
    vcover!();
    std::mem::forget((x, w));
}
macro_rules! display {
    ($name:ident, $shape:expr) => {
        #[cfg_attr(kani, kani::proof)]
        #[cfg_attr(kani, kani::stub(BigNum::to_string_base, m_to_string_digit))]
        #[cfg_attr(kani, kani::stub(std::fmt::format, fmt_model))]
        pub fn $name() {
            display_check($shape);
        }
    };
}
// @h prop=C06 unwind=10 cutfmt=num uw=write.0:17;display_check.0:17 timeout=2700 mem=12 stubs=BigNum::to_string_base->one-digit_model what=Display_of_NaN(1/0_and_-1/0)=fixed_NaN_text
display!(display_nan, 0);
// @h prop=C06 unwind=10 cutfmt=num uw=write.0:17 timeout=2700 mem=12 stubs=BigNum::to_string_base->one-digit_model what=Display_of_an_integer:no_denominator
display!(display_int, 1);
// @h prop=C06 unwind=10 cutfmt=num uw=write.0:17 timeout=2700 mem=12 stubs=BigNum::to_string_base->one-digit_model what=Display_of_a_fraction:n/d
display!(display_frac, 2);


// ===========================================================================
// Oracle validation (native only, run by `check C01` before the solver): the step definition
// (crate::vspec) is pushed through the repository's OWN test programs (tests/execute_test.rs and
// the input-free programs of tests/optimize_test.rs) and must produce the outputs those tests
// expect.  Programs that need more stacks / labels than the definition's fixed arrays hold are
// skipped and counted.
// ===========================================================================
#[cfg(not(kani))]
pub fn spec_selftest() {
    use crate::core::code::Code;
    fn conv(a: &Area, t: &mut SArea, n: &mut usize) -> Option<usize> {
        match a {
            Area::Nil => Some(NIL),
            Area::Val { type_, left, right } => {
                if *n >= 7 {
                    return None;
                }
                let me = *n;
                *n += 1;
                let l = if *type_ <= 1 { conv(left, t, n)? } else { NIL };
                let r = if *type_ <= 1 { conv(right, t, n)? } else { NIL };
                t.nodes[me] = (*type_, l, r);
                Some(me)
            }
        }
    }
    let cases: [(&str, &str, &str); 14] = [
        ("혀어어어어어어엉......핫.", "0", ""),
        ("혀어어어어어어어엉........ 핫. 혀엉..... 흑... 하앗... 흐윽... 형.  하앙.혀엉.... 하앙... 흐윽... 항. 항. 형... 하앙. 흐으윽... 형... 흡... 혀엉..하아아앗. 혀엉.. 흡... 흐읍... 형.. 하앗. 하아앙... 형... 하앙... 흐윽...혀어어엉.. 하앙. 항. 형... 하앙. 혀엉.... 하앙. 흑... 항. 형... 흡  하앗.", "Hello, world!", ""),
        ("혀어어어엉.. 흐으으윽... 하앗... 형.. 하앙. 하앗... 형. 혀어어엉.... 하아앙. 혀어엉... 흐윽.... 형.. 하앙.... 하앗.... 흐윽.... 핫. 혀엉.... 하앙. 혀어어엉.. 혀엉.. 하앗. 혀어어어엉.. 형. 하앙.... 흐윽.... 하앗. 혀엉..... 흐으윽... 하앗... 형. 하아앙. 혀엉..... 흐으윽... 하앗... 혀어어어어어엉. 하아앙.", "fuck you", ""),
        ("혀어어어어어어엉......핫.. 혀어어어어어어어엉........ 핫. 혀어어어어어어어엉......... 핫..", "H", "0Q"),
        ("형 흣........💕 흣.... 형. 하앙... 흣. 흑... 흐읏....!💕", "12345678", ""),
        ("형. 흣..", "", "1"),
        ("형. 형.. 형. 흑...💘 항.... 하앙... 항...♡ 흑...💘 ! 흣...흑.", "4", ""),
        // programs seen while reproducing the optimiser defects (expected = unoptimised behaviour)
        ("혀어어어어엉............. 혀어어어어어엉........... 흐읏.... 흣. 흣.", "M77", ""),
        ("형.....♥ 혀어어어어어어어어어어어엉..... 항. 형........ 형 항...... 흑.....?♥?", "A", ""),
        ("형. 형.. 흑.... 하앙...", "", ""),
        ("형.. 형.... 흐읍..... 핫. 핫.", "", ""),
        ("혀엉.. 흡... 핫.", "", ""),
        ("형... 형. 흑.... 항. 핫..", "", ""),
        ("혀어어엉.... 흣.. 핫.", "", "12"),
    ];
    let mut ran = 0;
    let mut skipped = 0;
    for (idx, (prog, want_out, want_err)) in cases.iter().enumerate() {
        let parsed = crate::core::parse::parse(prog.to_string());
        let mut codes: Vec<SCode> = Vec::new();
        let mut fits = true;
        for c in &parsed {
            let mut t = SArea { nodes: [(0, NIL, NIL); 7], root: NIL };
            let mut n = 0;
            match conv(c.get_area(), &mut t, &mut n) {
                Some(r) => t.root = r,
                None => fits = false,
            }
            if c.get_type() != 0 && c.get_dot_count() >= NSTK {
                fits = false;
            }
            codes.push(SCode { kind: c.get_type(), h: c.get_hangul_count(), d: c.get_dot_count(), area: t, ac: c.get_area_count() });
        }
        // expected values of the last 5 ad-hoc cases are taken from the real interpreter below
        let (mut exp_out, mut exp_err) = (want_out.to_string(), want_err.to_string());
        if idx >= 9 {
            let mut ipt = crate::util::io::CustomReader::new(String::new());
            let mut o = crate::util::io::CustomWriter::new(|_| Ok(()));
            let mut e = crate::util::io::CustomWriter::new(|_| Ok(()));
            let mut st = crate::core::state::UnOptState::new();
            for c in &parsed {
                st = execute(&mut ipt, &mut o, &mut e, st, c).unwrap();
            }
            exp_out = o.to_string().unwrap();
            exp_err = e.to_string().unwrap();
        }
        if !fits {
            skipped += 1;
            continue;
        }
        let mut s = SState {
            st: [[NAN; DEPTH]; NSTK], len: [0; NSTK], cur: 3, out: [0; OBUF], olen: 0, err: [0; OBUF], elen: 0,
            pts: [(0, 0); NPTS], npts: 0, latest: None, line: [0; 4], line_len: 0, line_avail: false, reads: 0,
        };
        let mut loc = 0usize;
        let mut steps = 0;
        let mut over = false;
        while loc < codes.len() && steps < 100000 {
            if s.npts >= NPTS || s.len.iter().any(|&l| l + codes[loc].h + 2 >= DEPTH) || s.olen + 32 >= OBUF || s.elen + 32 >= OBUF {
                over = true;
                break;
            }
            match spec_step(&mut s, &codes[loc], loc) {
                End::Next(n) => loc = n,
                _ => break,
            }
            steps += 1;
        }
        if over {
            skipped += 1;
            continue;
        }
        let o = String::from_utf8(s.out[..s.olen].to_vec()).unwrap();
        let e = String::from_utf8(s.err[..s.elen].to_vec()).unwrap();
        assert!(o == exp_out && e == exp_err, "step definition disagrees with the repository's test expectation on program {}: got {:?}/{:?}, expected {:?}/{:?}", idx, o, e, exp_out, exp_err);
        ran += 1;
    }
    println!("SPEC-SELFTEST: {} programs agree, {} skipped (exceed the definition's fixed arrays)", ran, skipped);
}

// @h prop=C01 unwind=10 rec=2 cutfmt=1 uw=same_output.0:25;exit_model.0:25;exit.0:25;push.0:17;write.0:17 timeout=3600 what=핫_with_zero_dots:product_goes_to_stack_0(the_input_buffer)
step!(t_mul_to0, Cfg { kind: 2, h: 2, d: 0, depth: [1, 0, 0, 2, 0, 0], ..CFG0 });
// @h prop=C01 unwind=10 rec=2 cutfmt=1 uw=same_output.0:25;exit_model.0:25;exit.0:25;push.0:17;write.0:17 timeout=3600 what=흣_with_zero_dots:sum_goes_to_stack_0
step!(t_neg_to0, Cfg { kind: 3, h: 1, d: 0, depth: [0, 0, 0, 1, 0, 0], ..CFG0 });

// ---- pairwise grid over (kind, operands, target, area, selected stack): thorough tier, stretch ----
// @h prop=C01 unwind=10 rec=2 cutfmt=1 uw=same_output.0:25;exit_model.0:25;exit.0:25;push.0:17;write.0:17 timeout=3600 tier=thorough kind=stretch what=pairwise_grid:흑_h=3_target=3_area=heart_selected=3
step!(g_k5_h3_d3_a1_c3, Cfg { kind: 5, h: 3, d: 3, cur: 3, area: 1, npts: 1, dom: Dom::I8, depth: [0, 0, 0, 3, 0, 0], ..CFG0 });
// @h prop=C01 unwind=10 rec=2 cutfmt=1 uw=same_output.0:25;exit_model.0:25;exit.0:25;push.0:17;write.0:17 timeout=3600 tier=thorough kind=stretch what=pairwise_grid:핫_h=1_target=4_area=none_selected=4
step!(g_k2_h1_d4_a0_c4, Cfg { kind: 2, h: 1, d: 4, cur: 4, area: 0, npts: 0, dom: Dom::Frac, depth: [0, 0, 0, 0, 1, 0], ..CFG0 });
// @h prop=C01 unwind=10 rec=3 cutfmt=1 uw=same_output.0:25;exit_model.0:25;exit.0:25;push.0:17;write.0:17 timeout=3600 tier=thorough kind=stretch what=pairwise_grid:흡_h=2_target=0_area=!_selected=3
step!(g_k4_h2_d0_a4_c3, Cfg { kind: 4, h: 2, d: 0, cur: 3, area: 4, npts: 0, dom: Dom::Frac, depth: [0, 0, 0, 3, 0, 0], ..CFG0 });
// @h prop=C01 unwind=10 rec=3 cutfmt=1 uw=same_output.0:25;exit_model.0:25;exit.0:25;push.0:17;write.0:17 timeout=3600 tier=thorough kind=stretch what=pairwise_grid:흣_h=2_target=3_area=?_selected=4
step!(g_k3_h2_d3_a3_c4, Cfg { kind: 3, h: 2, d: 3, cur: 4, area: 3, npts: 0, dom: Dom::I8, depth: [0, 0, 0, 1, 3, 0], ..CFG0 });
// @h prop=C01 unwind=10 rec=3 cutfmt=1 uw=same_output.0:25;exit_model.0:25;exit.0:25;push.0:17;write.0:17 timeout=3600 tier=thorough kind=stretch what=pairwise_grid:항_h=1_target=0_area=?_selected=3
step!(g_k1_h1_d0_a3_c3, Cfg { kind: 1, h: 1, d: 0, cur: 3, area: 3, npts: 0, dom: Dom::I8, depth: [0, 0, 0, 2, 0, 0], ..CFG0 });
// @h prop=C01 unwind=10 rec=3 cutfmt=1 uw=same_output.0:25;exit_model.0:25;exit.0:25;push.0:17;write.0:17 timeout=3600 tier=thorough kind=stretch what=pairwise_grid:항_h=3_target=4_area=!_selected=4
step!(g_k1_h3_d4_a4_c4, Cfg { kind: 1, h: 3, d: 4, cur: 4, area: 4, npts: 0, dom: Dom::I8, depth: [0, 0, 0, 0, 3, 0], ..CFG0 });
// @h prop=C01 unwind=10 rec=2 cutfmt=1 uw=same_output.0:25;exit_model.0:25;exit.0:25;push.0:17;write.0:17 timeout=3600 tier=thorough kind=stretch what=pairwise_grid:흣_h=3_target=0_area=none_selected=3
step!(g_k3_h3_d0_a0_c3, Cfg { kind: 3, h: 3, d: 0, cur: 3, area: 0, npts: 0, dom: Dom::I8, depth: [0, 0, 0, 3, 0, 0], ..CFG0 });
// @h prop=C01 unwind=10 rec=2 cutfmt=1 uw=same_output.0:25;exit_model.0:25;exit.0:25;push.0:17;write.0:17 timeout=3600 tier=thorough kind=stretch what=pairwise_grid:흡_h=1_target=4_area=heart_selected=4
step!(g_k4_h1_d4_a1_c4, Cfg { kind: 4, h: 1, d: 4, cur: 4, area: 1, npts: 1, dom: Dom::Frac, depth: [0, 0, 0, 0, 1, 0], ..CFG0 });
// @h prop=C01 unwind=10 rec=3 cutfmt=1 uw=same_output.0:25;exit_model.0:25;exit.0:25;push.0:17;write.0:17 timeout=3600 tier=thorough kind=stretch what=pairwise_grid:핫_h=1_target=3_area=!_selected=3
step!(g_k2_h1_d3_a4_c3, Cfg { kind: 2, h: 1, d: 3, cur: 3, area: 4, npts: 0, dom: Dom::Frac, depth: [0, 0, 0, 2, 0, 0], ..CFG0 });
// @h prop=C01 unwind=10 rec=2 cutfmt=1 uw=same_output.0:25;exit_model.0:25;exit.0:25;push.0:17;write.0:17 timeout=3600 tier=thorough kind=stretch what=pairwise_grid:흑_h=2_target=4_area=none_selected=4
step!(g_k5_h2_d4_a0_c4, Cfg { kind: 5, h: 2, d: 4, cur: 4, area: 0, npts: 0, dom: Dom::I8, depth: [0, 0, 0, 0, 2, 0], ..CFG0 });
// @h prop=C01 unwind=10 rec=2 cutfmt=1 uw=same_output.0:25;exit_model.0:25;exit.0:25;push.0:17;write.0:17 timeout=3600 tier=thorough kind=stretch what=pairwise_grid:핫_h=2_target=0_area=heart_selected=4
step!(g_k2_h2_d0_a1_c4, Cfg { kind: 2, h: 2, d: 0, cur: 4, area: 1, npts: 1, dom: Dom::Frac, depth: [0, 0, 0, 0, 2, 0], ..CFG0 });
// @h prop=C01 unwind=10 rec=3 cutfmt=1 uw=same_output.0:25;exit_model.0:25;exit.0:25;push.0:17;write.0:17 timeout=3600 tier=thorough kind=stretch what=pairwise_grid:흡_h=3_target=4_area=?_selected=3
step!(g_k4_h3_d4_a3_c3, Cfg { kind: 4, h: 3, d: 4, cur: 3, area: 3, npts: 0, dom: Dom::Frac, depth: [0, 0, 0, 3, 1, 0], ..CFG0 });
// @h prop=C01 unwind=10 rec=2 cutfmt=1 uw=same_output.0:25;exit_model.0:25;exit.0:25;push.0:17;write.0:17 timeout=3600 tier=thorough kind=stretch what=pairwise_grid:항_h=2_target=3_area=none_selected=4
step!(g_k1_h2_d3_a0_c4, Cfg { kind: 1, h: 2, d: 3, cur: 4, area: 0, npts: 0, dom: Dom::I8, depth: [0, 0, 0, 1, 2, 0], ..CFG0 });
// @h prop=C01 unwind=10 rec=3 cutfmt=1 uw=same_output.0:25;exit_model.0:25;exit.0:25;push.0:17;write.0:17 timeout=3600 tier=thorough kind=stretch what=pairwise_grid:흣_h=1_target=4_area=!_selected=3
step!(g_k3_h1_d4_a4_c3, Cfg { kind: 3, h: 1, d: 4, cur: 3, area: 4, npts: 0, dom: Dom::I8, depth: [0, 0, 0, 2, 1, 0], ..CFG0 });
// @h prop=C01 unwind=10 rec=3 cutfmt=1 uw=same_output.0:25;exit_model.0:25;exit.0:25;push.0:17;write.0:17 timeout=3600 tier=thorough kind=stretch what=pairwise_grid:흑_h=1_target=0_area=?_selected=4
step!(g_k5_h1_d0_a3_c4, Cfg { kind: 5, h: 1, d: 0, cur: 4, area: 3, npts: 0, dom: Dom::I8, depth: [0, 0, 0, 0, 2, 0], ..CFG0 });
// @h prop=C01 unwind=10 rec=3 cutfmt=1 uw=same_output.0:25;exit_model.0:25;exit.0:25;push.0:17;write.0:17 timeout=3600 tier=thorough kind=stretch what=pairwise_grid:핫_h=3_target=0_area=?_selected=4
step!(g_k2_h3_d0_a3_c4, Cfg { kind: 2, h: 3, d: 0, cur: 4, area: 3, npts: 0, dom: Dom::Frac, depth: [0, 0, 0, 0, 3, 0], ..CFG0 });
// @h prop=C01 unwind=10 rec=2 cutfmt=1 uw=same_output.0:25;exit_model.0:25;exit.0:25;push.0:17;write.0:17 timeout=3600 tier=thorough kind=stretch what=pairwise_grid:흡_h=1_target=3_area=none_selected=4
step!(g_k4_h1_d3_a0_c4, Cfg { kind: 4, h: 1, d: 3, cur: 4, area: 0, npts: 0, dom: Dom::Frac, depth: [0, 0, 0, 1, 1, 0], ..CFG0 });
// @h prop=C01 unwind=10 rec=3 cutfmt=1 uw=same_output.0:25;exit_model.0:25;exit.0:25;push.0:17;write.0:17 timeout=3600 tier=thorough kind=stretch what=pairwise_grid:흑_h=1_target=3_area=!_selected=3
step!(g_k5_h1_d3_a4_c3, Cfg { kind: 5, h: 1, d: 3, cur: 3, area: 4, npts: 0, dom: Dom::I8, depth: [0, 0, 0, 2, 0, 0], ..CFG0 });
// @h prop=C01 unwind=10 rec=2 cutfmt=1 uw=same_output.0:25;exit_model.0:25;exit.0:25;push.0:17;write.0:17 timeout=3600 tier=thorough kind=stretch what=pairwise_grid:항_h=2_target=3_area=heart_selected=3
step!(g_k1_h2_d3_a1_c3, Cfg { kind: 1, h: 2, d: 3, cur: 3, area: 1, npts: 1, dom: Dom::I8, depth: [0, 0, 0, 2, 0, 0], ..CFG0 });
// @h prop=C01 unwind=10 rec=2 cutfmt=1 uw=same_output.0:25;exit_model.0:25;exit.0:25;push.0:17;write.0:17 timeout=3600 tier=thorough kind=stretch what=pairwise_grid:흣_h=3_target=0_area=heart_selected=4
step!(g_k3_h3_d0_a1_c4, Cfg { kind: 3, h: 3, d: 0, cur: 4, area: 1, npts: 1, dom: Dom::I8, depth: [0, 0, 0, 0, 3, 0], ..CFG0 });
